"""Small syntactic helpers shared by the rule modules."""
import ast

from .index import AnalysisError, dotted_chain, norm, unparse, walk_no_nested, body_stmts


def returns_of(func):
    return [n for n in walk_no_nested(func.node) if isinstance(n, ast.Return)]


def calls_in(node, nested=False):
    it = ast.walk(node) if nested else walk_no_nested(node)
    out = [n for n in it if isinstance(n, ast.Call)]
    if isinstance(node, ast.Call) and not nested:
        out.insert(0, node)
    return out


def call_name(call):
    """Last attribute / name of the callee ('a.b.c(...)' -> 'c')."""
    f = call.func
    if isinstance(f, ast.Attribute):
        return f.attr
    if isinstance(f, ast.Name):
        return f.id
    return None


def callee_chain(call):
    return dotted_chain(call.func)


def is_self_attr(node, selfname, attr=None):
    return (isinstance(node, ast.Attribute) and isinstance(node.value, ast.Name)
            and node.value.id == selfname and (attr is None or node.attr == attr))


def kwarg(call, name):
    for k in call.keywords:
        if k.arg == name:
            return k.value
    return None


def arg_or_kw(call, pos, name):
    if pos is not None and len(call.args) > pos and not any(isinstance(a, ast.Starred) for a in call.args[:pos + 1]):
        return call.args[pos]
    return kwarg(call, name)


def where(func_or_cls, node=None):
    if node is not None and hasattr(node, 'lineno'):
        line = getattr(node, '_orig_lineno', node.lineno)
    else:
        line = getattr(func_or_cls, 'raw_node', func_or_cls.node).lineno
    return '%s:%d' % (func_or_cls.module.relpath, line)


def mentions(node, name):
    return any(isinstance(n, ast.Name) and n.id == name for n in ast.walk(node))


def mentions_attr(node, selfname, attr):
    return any(is_self_attr(n, selfname, attr) for n in ast.walk(node))


def parent_map(root):
    pm = {}
    for n in ast.walk(root):
        for c in ast.iter_child_nodes(n):
            pm[id(c)] = n
    return pm


def enclosing(pm, node, types):
    cur = pm.get(id(node))
    while cur is not None:
        if isinstance(cur, types):
            return cur
        cur = pm.get(id(cur))
    return None


def ancestors(pm, node):
    out = []
    cur = pm.get(id(node))
    while cur is not None:
        out.append(cur)
        cur = pm.get(id(cur))
    return out


def in_finally(pm, node):
    """True when ``node`` sits inside the ``finally`` block of some enclosing try."""
    child = node
    cur = pm.get(id(node))
    while cur is not None:
        if isinstance(cur, ast.Try) and any(child is s for s in cur.finalbody):
            return cur
        child = cur
        cur = pm.get(id(cur))
    return None


def in_try_body(pm, node):
    child = node
    cur = pm.get(id(node))
    while cur is not None:
        if isinstance(cur, ast.Try) and any(child is s for s in cur.body):
            return cur
        child = cur
        cur = pm.get(id(cur))
    return None


def dict_literal_keys(node):
    """Keys of ``dict(k=v, ...)`` / ``{'k': v}`` literals -> {key: value node}; None if not a literal."""
    if isinstance(node, ast.Dict):
        out = {}
        for k, v in zip(node.keys, node.values):
            if k is None:
                return None
            if isinstance(k, ast.Constant) and isinstance(k.value, str):
                out[k.value] = v
            else:
                return None
        return out
    if isinstance(node, ast.Call) and isinstance(node.func, ast.Name) and node.func.id == 'dict' and not node.args:
        out = {}
        for k in node.keywords:
            if k.arg is None:
                return None
            out[k.arg] = k.value
        return out
    return None


def const_str(node):
    if isinstance(node, ast.Constant) and isinstance(node.value, str):
        return node.value
    return None


def require(cond, msg):
    if not cond:
        raise AnalysisError(msg)


def guard_chain(pm, node, stop):
    """The If/For/While/Try ancestors of node up to (excluding) stop, innermost first,
    with the branch taken: [(ancestor, 'body'|'orelse'|'handler'|'finally')]."""
    out = []
    child = node
    cur = pm.get(id(node))
    while cur is not None and cur is not stop:
        if isinstance(cur, (ast.If, ast.For, ast.While, ast.Try, ast.With, ast.ExceptHandler)):
            branch = None
            for fld in ('body', 'orelse', 'finalbody', 'handlers'):
                seq = getattr(cur, fld, None)
                if seq and any(child is s for s in seq):
                    branch = fld
            out.append((cur, branch))
        child = cur
        cur = pm.get(id(cur))
    return out


_BRANCHES = [False]


class branch_locals(object):
    """``with branch_locals():`` - inside, expand_locals() also reads through names bound once in each arm of an if/else
    (as conditional expressions)."""

    def __enter__(self):
        self._old = _BRANCHES[0]
        _BRANCHES[0] = True

    def __exit__(self, *a):
        _BRANCHES[0] = self._old


def single_assignments(fnode):
    """{name: value expression} for local names assigned exactly once in the function (plain ``name = expr``), and never
    augmented / deleted / used as a loop or with target."""
    import collections
    count = collections.Counter()
    val = {}
    for n in ast.walk(fnode):
        if isinstance(n, ast.Name) and isinstance(n.ctx, (ast.Store, ast.Del)):
            count[n.id] += 1
        if isinstance(n, ast.Assign) and len(n.targets) == 1 and isinstance(n.targets[0], ast.Name):
            val[n.targets[0].id] = n.value
        # a, b = x, y
        if isinstance(n, ast.Assign) and len(n.targets) == 1 and isinstance(n.targets[0], ast.Tuple) and isinstance(n.value, ast.Tuple) \
                and len(n.targets[0].elts) == len(n.value.elts):
            for t_, v_ in zip(n.targets[0].elts, n.value.elts):
                if isinstance(t_, ast.Name):
                    val[t_.id] = v_
    params = {a.arg for a in fnode.args.posonlyargs + fnode.args.args + fnode.args.kwonlyargs}
    mutated = set()
    for n in ast.walk(fnode):
        if isinstance(n, ast.Subscript) and isinstance(n.ctx, (ast.Store, ast.Del)) and isinstance(n.value, ast.Name):
            mutated.add(n.value.id)
        elif isinstance(n, ast.Call) and isinstance(n.func, ast.Attribute) and isinstance(n.func.value, ast.Name) and \
                n.func.attr in ('append', 'add', 'extend', 'insert', 'remove', 'pop', 'clear', 'update', 'setdefault', 'discard', 'sort', 'reverse', 'popitem'):
            mutated.add(n.func.value.id)
        elif isinstance(n, ast.AugAssign) and isinstance(n.target, ast.Name):
            mutated.add(n.target.id)

    def container(v):
        # an empty container is created to be filled
        return (isinstance(v, ast.Dict) and not v.keys) or (isinstance(v, (ast.List, ast.Set)) and not v.elts) or \
            (isinstance(v, ast.Call) and isinstance(v.func, ast.Name) and v.func.id in ('dict', 'list', 'set', 'OrderedDict', 'defaultdict')
             and not v.args and not v.keywords)
    # a name bound several times to the same side-effect free path (an alias such as `vs = self.viewer_state`) counts as bound once
    allvals = collections.defaultdict(list)
    for n in ast.walk(fnode):
        if isinstance(n, ast.Assign) and len(n.targets) == 1 and isinstance(n.targets[0], ast.Name):
            allvals[n.targets[0].id].append(n.value)

    def path(v):
        # a name, an attribute path, or an element of one selected by a plain name / constant: an alias of an existing object
        return isinstance(v, ast.Name) or (isinstance(v, ast.Attribute) and path(v.value)) or \
            (isinstance(v, ast.Subscript) and path(v.value) and isinstance(v.slice, (ast.Name, ast.Constant)))

    def once(k):
        if count[k] == 1:
            return True
        vs = allvals.get(k, [])
        return len(vs) == count[k] and all(path(v) or pure(v) for v in vs) and len({ast.dump(v) for v in vs}) == 1

    def pure(v):
        # arithmetic over paths and constants: the same value wherever it is (re)computed, as long as the paths are not rebound
        if isinstance(v, ast.Constant) or path(v):
            return True
        if isinstance(v, ast.BinOp):
            return pure(v.left) and pure(v.right)
        if isinstance(v, ast.UnaryOp):
            return pure(v.operand)
        return False
    # a name bound to a path (an alias of an existing object) may be mutated through: it is still that object
    out = {k: v for k, v in val.items() if once(k) and k not in params and (k not in mutated or path(v)) and not container(v)}
    # a name bound once in each arm of one if/else (and nowhere else) is a conditional expression: `if c: p = a  else: p = b`
    # (only on request - see branch_locals(): most rules want to see the name, not the case split)
    for n in (ast.walk(fnode) if _BRANCHES[0] else ()):
        if isinstance(n, ast.If) and n.orelse:
            def arm(stmts):
                d = {}
                for st in stmts:
                    if isinstance(st, ast.Assign) and len(st.targets) == 1 and isinstance(st.targets[0], ast.Name):
                        d.setdefault(st.targets[0].id, []).append(st.value)
                return d
            a, b = arm(n.body), arm(n.orelse)
            for k in set(a) & set(b):
                if count[k] == 2 and len(a[k]) == 1 and len(b[k]) == 1 and k not in params and k not in mutated and k not in out:
                    out[k] = ast.copy_location(ast.IfExp(test=n.test, body=a[k][0], orelse=b[k][0]), n)
    return out


def expand_locals(fnode, expr, depth=4):
    """``expr`` with every single-assignment local replaced by its defining expression (repeatedly): `c = type(o); c.__name__`
    reads as `type(o).__name__`.  Sound for recognition purposes when the definitions are side-effect free."""
    import copy
    defs = single_assignments(fnode)

    class S(ast.NodeTransformer):
        def visit_Name(self, n):
            if isinstance(n.ctx, ast.Load) and n.id in defs and not isinstance(defs[n.id], (ast.Lambda,)):
                if isinstance(defs[n.id], ast.IfExp) and not _BRANCHES[0]:
                    return n        # a case split stays behind its name unless asked for (branch_locals)
                return copy.deepcopy(defs[n.id])
            return n
    e = copy.deepcopy(expr)
    for _ in range(depth):
        before = ast.dump(e)
        e = S().visit(e)
        if ast.dump(e) == before:
            break
    return e


def iterations(node, nested=True):
    """Every iteration written in ``node``: ``(iter expr, target, owner node, kind)`` for ``for`` loops ('for') and for the
    generators of comprehensions / generator expressions ('comp').  A loop and a comprehension over the same collection
    examine the same elements; rules that ask "is every element looked at?" should accept both."""
    out = []
    for n in ast.walk(node):
        if isinstance(n, (ast.For, ast.AsyncFor)):
            out.append((n.iter, n.target, n, 'for'))
        elif isinstance(n, (ast.ListComp, ast.SetComp, ast.GeneratorExp, ast.DictComp)):
            for g in n.generators:
                out.append((g.iter, g.target, n, 'comp'))
    return out


def short_circuits(pm, comp):
    """Is the comprehension consumed by something that may stop early (any / all / next / in)?"""
    par = pm.get(id(comp))
    return isinstance(par, ast.Call) and isinstance(par.func, ast.Name) and par.func.id in ('any', 'all', 'next')


def key_removals(node, field):
    """Every removal of a key from the mapping ``<x>.<field>``: ``.pop(k)``, ``.__delitem__(k)`` and ``del <x>.<field>[k]``
    -> list of (node, key expression)."""
    out = []
    for n in ast.walk(node):
        if isinstance(n, ast.Call) and isinstance(n.func, ast.Attribute) and n.func.attr in ('pop', '__delitem__') and n.args \
                and isinstance(n.func.value, ast.Attribute) and n.func.value.attr == field:
            out.append((n, n.args[0]))
        elif isinstance(n, ast.Delete):
            for t in n.targets:
                if isinstance(t, ast.Subscript) and isinstance(t.value, ast.Attribute) and t.value.attr == field:
                    out.append((n, t.slice))
    return out


class Elementwise(object):
    """What a collection-valued expression does with its source collection: ``source`` (text of the innermost collection
    expression), whether elements can be dropped (``filtered``), whether the order can change (``reordered``) and the calls
    applied to each element (``funcs``: texts of callee expressions)."""

    def __init__(self, source, node, filtered=False, reordered=False, funcs=()):
        self.source = source
        self.node = node
        self.filtered = filtered
        self.reordered = reordered
        self.funcs = tuple(funcs)

    def __repr__(self):
        return '<each %s over %s%s%s>' % ('/'.join(self.funcs) or 'id', self.source, ' filtered' if self.filtered else '',
                                          ' reordered' if self.reordered else '')


def elementwise(expr, fnode=None, depth=6):
    """Recognise ``list(map(F, X))``, ``[F(e) for e in X]``, ``list(F(e) for e in X)``, ``tuple(X)``, ``sorted(X)``, ... as one
    thing: a pass over the collection X.  Local names assigned once are followed when ``fnode`` is given.  Returns an
    :class:`Elementwise` (a plain name / attribute / subscript is a pass over itself) or None when the expression is not a
    single pass over one collection."""
    if expr is None or depth < 0:
        return None
    if fnode is not None:
        expr = expand_locals(fnode, expr)
    e = expr
    if isinstance(e, (ast.Name, ast.Attribute)):
        return Elementwise(unparse(e), e)
    if isinstance(e, ast.Subscript):
        if isinstance(e.slice, ast.Slice):
            inner = elementwise(e.value, None, depth - 1)
            if inner is None:
                return None
            s = e.slice
            whole = s.lower is None and s.upper is None
            rev = s.step is not None and not (isinstance(s.step, ast.Constant) and s.step.value == 1)
            return Elementwise(inner.source, inner.node, inner.filtered or not whole or (rev and unparse(s.step) != '-1'),
                               inner.reordered or rev, inner.funcs)
        return Elementwise(unparse(e), e)
    if isinstance(e, ast.Call):
        nm = call_name(e)
        if isinstance(e.func, ast.Name) and nm in ('list', 'tuple', 'iter') and len(e.args) == 1 and not e.keywords:
            return elementwise(e.args[0], None, depth - 1)
        if isinstance(e.func, ast.Name) and nm in ('sorted', 'reversed', 'set', 'frozenset') and e.args:
            inner = elementwise(e.args[0], None, depth - 1)
            if inner is None:
                return None
            return Elementwise(inner.source, inner.node, inner.filtered or nm in ('set', 'frozenset'), True, inner.funcs)
        if isinstance(e.func, ast.Name) and nm == 'map' and len(e.args) == 2:
            inner = elementwise(e.args[1], None, depth - 1)
            if inner is None:
                return None
            return Elementwise(inner.source, inner.node, inner.filtered, inner.reordered, inner.funcs + (unparse(e.args[0]),))
        if isinstance(e.func, ast.Name) and nm == 'filter' and len(e.args) == 2:
            inner = elementwise(e.args[1], None, depth - 1)
            if inner is None:
                return None
            return Elementwise(inner.source, inner.node, True, inner.reordered, inner.funcs)
        if isinstance(e.func, ast.Name) and nm == 'enumerate' and e.args:
            return elementwise(e.args[0], None, depth - 1)
        if isinstance(e.func, ast.Name) and nm == 'range' and len(e.args) == 1 and isinstance(e.args[0], ast.Call) and \
                isinstance(e.args[0].func, ast.Name) and e.args[0].func.id == 'len' and len(e.args[0].args) == 1:
            return elementwise(e.args[0].args[0], None, depth - 1)          # every index of X: a pass over X
        if isinstance(e.func, ast.Attribute) and nm == 'keys' and not e.args:
            return elementwise(e.func.value, None, depth - 1)       # iterating a mapping iterates its keys
        if isinstance(e.func, ast.Attribute) and nm == 'copy' and not e.args:
            return elementwise(e.func.value, None, depth - 1)
        if isinstance(e.func, ast.Attribute) and not e.args and not e.keywords:
            return Elementwise(unparse(e), e)                        # an accessor such as data.component_ids()
        return None
    if isinstance(e, ast.BinOp):
        return Elementwise(unparse(e), e)                            # a collection put together from parts: a source of its own
    if isinstance(e, (ast.ListComp, ast.GeneratorExp, ast.SetComp)):
        if len(e.generators) != 1:
            return None
        g = e.generators[0]
        inner = elementwise(g.iter, None, depth - 1)
        if inner is None:
            return None
        funcs = []
        for c in ast.walk(e.elt):
            if isinstance(c, ast.Call):
                funcs.append(unparse(c.func))
        return Elementwise(inner.source, inner.node, inner.filtered or bool(g.ifs), inner.reordered or isinstance(e, ast.SetComp),
                           inner.funcs + tuple(funcs))
    return None


def element_cases(fnode, expr):
    """How a list is put together element by element from ONE pass over a source collection, whichever way it is written:

        out = []                                  out = [A if c else B for x in src]
        for x in src:
            if c: out.append(A)
            else: out.append(B)

    -> (source text, target text, [(condition formula, value node)], filtered?) or None.  ``expr`` is the list expression or the
    name of the local list.  Conditions are formulas of sa/cond.py over the loop variables."""
    from . import cond
    e = expr
    if isinstance(e, ast.Name):
        defs = [st for st in ast.walk(fnode) if isinstance(st, ast.Assign) and len(st.targets) == 1 and isinstance(st.targets[0], ast.Name)
                and st.targets[0].id == e.id]
        if len(defs) == 1 and not (isinstance(defs[0].value, ast.List) and not defs[0].value.elts):
            return element_cases(fnode, defs[0].value)
        if len(defs) == 1:
            # filled by appends in one loop
            loops = [lp for lp in ast.walk(fnode) if isinstance(lp, (ast.For,)) and
                     any(isinstance(c, ast.Call) and isinstance(c.func, ast.Attribute) and c.func.attr == 'append' and
                         isinstance(c.func.value, ast.Name) and c.func.value.id == e.id for c in ast.walk(lp))]
            outer = [lp for lp in loops if not any(lp is not o and any(lp is x for x in ast.walk(o)) for o in loops)]
            if len(outer) != 1:
                return None
            lp = outer[0]
            cases = []
            for st in ast.walk(lp):
                if isinstance(st, ast.Expr) and isinstance(st.value, ast.Call) and isinstance(st.value.func, ast.Attribute) and \
                        st.value.func.attr == 'append' and isinstance(st.value.func.value, ast.Name) and st.value.func.value.id == e.id \
                        and len(st.value.args) == 1:
                    pc = cond.path_condition(fnode, st)
                    cases.append((pc if pc is not None else ('const', True), st.value.args[0]))
            return unparse(lp.iter), unparse(lp.target), cases, False
        return None
    if isinstance(e, ast.Call) and isinstance(e.func, ast.Name) and e.func.id in ('tuple', 'list') and len(e.args) == 1:
        return element_cases(fnode, e.args[0])
    if isinstance(e, (ast.ListComp, ast.GeneratorExp)) and len(e.generators) == 1:
        g = e.generators[0]
        cases = []

        def split(v, c):
            if isinstance(v, ast.IfExp):
                t = cond.formula(v.test)
                split(v.body, cond.And(c, t))
                split(v.orelse, cond.And(c, cond.Not(t)))
            else:
                cases.append((c, v))
        split(e.elt, ('const', True))
        return unparse(g.iter), unparse(g.target), cases, bool(g.ifs)
    return None


def alpha(node_or_text):
    """Text of a statement / expression with its plain names replaced by placeholders in order of first appearance
    (`result &= (v >= 0) & (v < n)` -> `_1 &= (_2 >= 0) & (_2 < _3)`): a key that survives the renaming of locals.
    `self`, `cls` and module aliases of numpy stay."""
    import copy
    if isinstance(node_or_text, str):
        node = ast.parse(node_or_text).body[0]
    else:
        node = copy.deepcopy(node_or_text)
    keep = {'self', 'cls', 'np', 'numpy', 'True', 'False', 'None'}

    class _Orient(ast.NodeTransformer):
        # one orientation for comparisons: a > b is b < a, a >= b is b <= a; literals on the right
        def visit_Compare(self, n):
            self.generic_visit(n)
            if len(n.ops) == 1 and not isinstance(n.left, ast.Constant):
                if isinstance(n.ops[0], ast.Gt) and not isinstance(n.comparators[0], ast.Constant):
                    return ast.copy_location(ast.Compare(left=n.comparators[0], ops=[ast.Lt()], comparators=[n.left]), n)
                if isinstance(n.ops[0], ast.GtE) and not isinstance(n.comparators[0], ast.Constant):
                    return ast.copy_location(ast.Compare(left=n.comparators[0], ops=[ast.LtE()], comparators=[n.left]), n)
            if len(n.ops) == 1 and isinstance(n.left, ast.Constant) and not isinstance(n.comparators[0], ast.Constant):
                flip = {ast.Eq: ast.Eq, ast.NotEq: ast.NotEq, ast.Lt: ast.Gt, ast.Gt: ast.Lt, ast.LtE: ast.GtE, ast.GtE: ast.LtE}.get(type(n.ops[0]))
                if flip:
                    return ast.copy_location(ast.Compare(left=n.comparators[0], ops=[flip()], comparators=[n.left]), n)
            return n
    node = _Orient().visit(node)
    ast.fix_missing_locations(node)
    names = {}
    # source order, not ast.walk order
    order = sorted((n for n in ast.walk(node) if isinstance(n, ast.Name)), key=lambda n: (getattr(n, 'lineno', 0), getattr(n, 'col_offset', 0)))
    for n in order:
        if n.id in keep:
            continue
        if n.id not in names:
            names[n.id] = '_%d' % (len(names) + 1)
    for n in order:
        if n.id in names:
            n.id = names[n.id]
    return norm(node)


def rename_locals(fnode, mapping):
    """A copy of the function with local names renamed (``mapping``: actual name -> canonical name).  Rules written against the
    names the reference tree uses find their variables by ROLE (see the callers) and read the function through this copy, so a
    renamed local is the same variable to them.  A canonical name that is already taken by another local is left alone."""
    import copy
    mapping = {a: c for a, c in mapping.items() if a != c}
    if not mapping:
        return fnode
    taken = {n.id for n in ast.walk(fnode) if isinstance(n, ast.Name)} | {a.arg for a in ast.walk(fnode) if isinstance(a, ast.arg)}
    mapping = {a: c for a, c in mapping.items() if c not in taken or c in mapping}
    if not mapping:
        return fnode
    new = copy.deepcopy(fnode)
    for n in ast.walk(new):
        if isinstance(n, ast.Name) and n.id in mapping:
            n.id = mapping[n.id]
    return new


class FuncView(object):
    """A Func seen through another syntax tree (see rename_locals)."""

    def __init__(self, func, node):
        self._func = func
        self.node = node

    def __getattr__(self, k):
        return getattr(self._func, k)
