"""Mutation => announcement pairing on the statement CFG (used by C17, C06, C03)."""
import ast

from .index import AnalysisError, norm, unparse, walk_no_nested
from .cfg import CFG, EXIT, ENTRY
from .util import call_name, where

MSG = 'glue.core.message.'

HUB_ATOMS = (
    'self.hub', 'self.hub is not None', 'self.parent is not None', 'self.parent.hub', 'self.parent.hub is not None',
    'self.data is not None', 'self.data.hub', 'self.data.hub is not None', "hasattr(self, 'data')",
    "hasattr(self.data, 'hub')", 'self._broadcasting', 'self.data_collection is not None',
)


def conjuncts(test):
    if isinstance(test, ast.BoolOp) and isinstance(test.op, ast.And):
        out = []
        for v in test.values:
            out += conjuncts(v)
        return out
    return [test]


def disjuncts(test):
    if isinstance(test, ast.BoolOp) and isinstance(test.op, ast.Or):
        out = []
        for v in test.values:
            out += disjuncts(v)
        return out
    return [test]


def guard_label(test, selfname, extra=(), fnode=None):
    """Which edge of an ``if`` may legitimately skip the announcement: the edge that cannot be taken when every hub-presence
    condition (and every row-specific extra guard) holds.  'false' / 'true', or None when the test involves anything else.

    The test is read as a propositional formula (sa/cond.py) after expanding single-assignment locals, so
    ``announce = self._broadcasting and self.data.hub is not None; ...; if announce:``, ``if not (a and b): return`` and the
    plain ``if a and b:`` are all the same guard."""
    from . import cond
    from .util import expand_locals
    t = expand_locals(fnode, test) if fnode is not None else test
    f = cond.formula(t)
    present = {}
    for a in [x.replace('self', selfname or 'self') for x in HUB_ATOMS] + list(extra):
        try:
            lit = cond.formula(ast.parse(a, mode='eval').body)
        except SyntaxError:
            continue
        if lit[0] == 'atom':
            present[lit[1]] = True
        elif lit[0] == 'not' and lit[1][0] == 'atom':
            present[lit[1][1]] = False
    # extras given as local names stay meaningful after expansion only if the name itself survives; also try the raw test
    keys = cond.atoms(f)
    if not keys or not keys <= set(present):
        f = cond.formula(test)
        keys = cond.atoms(f)
        if not keys or not keys <= set(present):
            return None
    val = cond.evaluate(f, {k: present[k] for k in keys})
    return 'false' if val else 'true'


def _can_raise(st, kind):
    """Can evaluating the node's own expression raise?  (binding a constant or a plain name to a local cannot)"""
    if st is None:
        return False
    if kind in ('if', 'while'):
        e = st.test
    elif kind == 'for':
        e = st.iter
    elif kind in ('try', 'except', 'break', 'continue', 'def'):
        return False
    else:
        e = st
    if isinstance(e, ast.Assign) and all(isinstance(t, ast.Name) for t in e.targets):
        e = e.value
    if isinstance(e, ast.Pass):
        return False
    return any(isinstance(x, (ast.Call, ast.Subscript, ast.Attribute, ast.BinOp, ast.Compare, ast.Starred, ast.Assert, ast.Delete,
                              ast.Import, ast.ImportFrom, ast.Yield, ast.YieldFrom, ast.Await, ast.UnaryOp))
               for x in ast.walk(e)) or isinstance(e, (ast.Tuple,)) and False


class Announcer(object):
    def __init__(self, ctx, func, depth=1):
        self.ctx = ctx
        self.ix = ctx.index
        self.func = func
        self.cfg = CFG(func.node)
        self.selfname = func.self_name
        self._dom = None

    @property
    def dom(self):
        if self._dom is None:
            self._dom = self.cfg.dominators()
        return self._dom

    # -- which message does a broadcast call carry? -------------------------------------
    def _message_of_call(self, call, at_line):
        """Qualified message class broadcast by ``X.broadcast(arg)``; None if not a hub broadcast."""
        if call_name(call) != 'broadcast' or not (call.args or call.keywords):
            return None
        f = self.func
        recv = call.func.value if isinstance(call.func, ast.Attribute) else None
        # helper on self: self.broadcast(attribute=...) -> resolve one level
        if recv is not None and isinstance(recv, ast.Name) and recv.id == self.selfname and f.cls is not None:
            m = f.cls.resolve('broadcast')
            if m is not None and m.func is not None:
                sub = Announcer(self.ctx, m.func)
                msgs = sub.all_broadcast_messages()
                return msgs[0] if len(msgs) == 1 else None
            return None
        arg = call.args[0] if call.args else call.keywords[0].value
        if isinstance(arg, ast.Call):
            return self.ix.resolve_expr(f.module, arg.func)
        if isinstance(arg, ast.Name):
            best = None
            for st in walk_no_nested(f.node):
                if isinstance(st, ast.Assign) and any(isinstance(t, ast.Name) and t.id == arg.id for t in st.targets) \
                        and isinstance(st.value, ast.Call) and st.lineno <= at_line:
                    if best is None or st.lineno > best.lineno:
                        best = st
            if best is not None:
                return self.ix.resolve_expr(f.module, best.value.func)
        return None

    def broadcast_nodes(self):
        """[(cfg node, message qualname, call)]"""
        from .rules.common import node_expr
        out = []
        for n in self.cfg.nodes():
            e = node_expr(self.cfg, n)
            if e is None:
                continue
            for c in ast.walk(e):
                if isinstance(c, ast.Call):
                    m = self._message_of_call(c, getattr(c, 'lineno', 0))
                    if m is not None and m.startswith(MSG):
                        out.append((n, m, c))
        return out

    def all_broadcast_messages(self):
        return sorted({m for _, m, _ in self.broadcast_nodes()})

    # -- obligations -----------------------------------------------------------------------
    def write_nodes(self, pred):
        from .rules.common import nodes_where
        return nodes_where(self.cfg, pred)

    def must_announce(self, rule, writes, message, extra_guards=(), what_write='the change', construct=None,
                      exceptions=None):
        """Every normal path from each write to the exit passes a broadcast of ``message``."""
        from .rules.common import node_expr
        cfg = self.cfg
        f = self.func
        W = self.write_nodes(writes)
        B = [n for n, m, c in self.broadcast_nodes() if m == MSG + message]
        pruned = set()
        for n in cfg.nodes():
            if cfg.kind[n] == 'if':
                lab = guard_label(cfg.stmt[n].test, self.selfname, extra_guards, self.func.node)
                if lab:
                    pruned.add((n, lab))
        results = []
        pruned0 = pruned
        for w in W:
            stmt_txt = norm(node_expr(cfg, w))
            if exceptions and id(cfg.stmt[w]) in exceptions:
                self.ctx.exception(rule, '%s `%s`' % (f.construct, stmt_txt), exceptions[id(cfg.stmt[w])])
                continue
            # an exception caught by a handler of this function is an ordinary way on (`try: i = xs.index(old) ... except
            # ValueError: pass`); not followed: the write itself failing (then nothing was written) and statements that cannot
            # raise (`flag = True`)
            pruned = set(pruned0)
            for n in cfg.nodes():
                for (s_, lab_) in cfg.succ[n]:
                    if lab_ == 'exc' and (n == w or cfg.kind[s_] != 'except' or not _can_raise(cfg.stmt[n], cfg.kind[n])):
                        pruned.add((n, s_, lab_))
            path = cfg.path_avoiding(w, EXIT, avoid=set(B) - {w}, labels_excluded=('raise',), pruned_edges=pruned)
            if path is not None:
                # is it a path that can be taken?  (dirty flags, remembered tests: the booleans are followed along the path)
                path = cfg.feasible_path(w, EXIT, avoid=set(B) - {w}, labels_excluded=('raise',), pruned_edges=pruned,
                                         assumed=self._assumed(extra_guards))
            ok = path is None and bool(B)
            self.ctx.ob(rule, '%s `%s` -> %s' % (construct or f.construct, stmt_txt, message),
                        '%s is announced by %s on every path (only hub-presence guards may skip it)' % (what_write, message),
                        ok,
                        detail='%s performs `%s` (%s) and can reach its exit without broadcasting %s: listeners (viewers, link '
                               'manager, pickers) keep showing the old structure'
                               % (f.construct, stmt_txt, what_write, message) if B else
                               '%s performs `%s` (%s) but never broadcasts %s' % (f.construct, stmt_txt, what_write, message),
                        where=where(f, cfg.stmt[w]), path=cfg.guards_on_path(path) if path else None)
            results.append(ok)
        return W, B

    def _assumed(self, extra=()):
        """{test text: outcome} of the conditions under which an announcement is due at all (a hub is there, ...)."""
        out = {}
        for a in [x.replace('self', self.selfname or 'self') for x in HUB_ATOMS] + list(extra):
            a = a.strip()
            if a.startswith('not '):
                out[a[4:].strip()] = False
            else:
                out[a] = True
        return out

    def no_spurious(self, rule, writes, message, flag=None, exception=None):
        """Every broadcast of ``message`` is dominated by a write (or by a loop that holds one), or guarded by a
        dirty flag whose every True-assignment directly follows a write."""
        from .rules.common import node_expr
        cfg = self.cfg
        f = self.func
        W = set(self.write_nodes(writes))
        cands = set(W)
        # loop lifting: a loop whose body holds a write counts as the write
        for n in cfg.nodes():
            if cfg.kind[n] in ('for', 'while'):
                st = cfg.stmt[n]
                inner = set()
                for b in st.body:
                    for x in ast.walk(b):
                        k = cfg.node_for(x)
                        if k is not None:
                            inner.add(k)
                if inner & W:
                    cands.add(n)
        B = [(n, c) for n, m, c in self.broadcast_nodes() if m == MSG + message]
        for b, call in B:
            ok = any(cfg.dominates(w, b, self.dom) for w in cands)
            how = ''
            if not ok and cfg.feasible_path(ENTRY, b, avoid=cands) is None:
                # no path that can be taken reaches the broadcast without passing a write (flags followed along the path)
                ok = True
                how = ' (path-sensitive)'
            if not ok and exception:
                self.ctx.exception(rule, '%s -> %s' % (f.construct, message), exception)
                continue
            if not ok and flag is not None:
                # guarded by the dirty flag?
                guarded = any(cfg.kind[g] == 'if' and flag in [unparse(c) for c in conjuncts(cfg.stmt[g].test)]
                              and cfg.dominates(g, b, self.dom) for g in cfg.nodes())
                if not guarded:
                    # the same guard written as a guard clause (`if not flag: return`) or through nested / merged tests: the
                    # condition under which the broadcast statement runs implies the flag
                    from . import cond
                    try:
                        pc = cond.path_condition(f.node, cfg.stmt[b])
                        guarded = pc is not None and cond.implies(pc, cond.formula(ast.parse(flag, mode='eval').body))
                    except ValueError:
                        guarded = False
                sets = [n for n in cfg.nodes() if cfg.kind[n] == 'stmt' and isinstance(cfg.stmt[n], ast.Assign)
                        and unparse(cfg.stmt[n].targets[0]) == flag and isinstance(cfg.stmt[n].value, ast.Constant)
                        and cfg.stmt[n].value.value is True]
                each = all(any(cfg.dominates(w, s, self.dom) and self._same_block(w, s) for w in W) for s in sets)
                ok = guarded and bool(sets) and each
                how = ' (dirty flag %s)' % flag
            self.ctx.ob(rule, '%s -> %s' % (f.construct, message),
                        'the broadcast of %s is preceded by the change on every path%s' % (message, how), ok,
                        detail='%s can broadcast %s on a path on which nothing was changed (the broadcast `%s` is not dominated '
                               'by the state write): listeners are told about a change that did not happen'
                               % (f.construct, message, norm(call)), where=where(f, call))
        return B

    def _same_block(self, a, b):
        """b is reached from a without crossing a branch point other than straight-line flow."""
        cfg = self.cfg
        cur = a
        seen = set()
        while cur not in seen:
            seen.add(cur)
            if cur == b:
                return True
            nxt = [t for (t, lab) in cfg.succ[cur] if lab not in ('exc', 'raise')]
            if len(nxt) != 1:
                return False
            cur = nxt[0]
        return False
