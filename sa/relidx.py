"""Relative-index domain: values supplied by a caller as *indices* (view entries, index tuples) may be negative or None;
they mean "position counted from the end" only to the indexing operation.  Using one as an absolute position - in
arithmetic, as a slice bound, as a coordinate value - is right for every non-negative index and wrong for the rest, which
is exactly the input a test suite does not sample.

Two tags:
  REL    the caller's view / index entries, as supplied (and anything copied from them)
  ABS    positions normalised against the axis length: ``np.arange(n)[rel]``, ``range(n)[rel]``, ``rel % n``,
         ``np.where(rel < 0, rel + n, rel)``, ``slice.indices(n)``, ``operator.index`` is NOT one (keeps the sign)

``classify`` is a client of sa/flow.py.  Nothing is executed.
"""
import ast

from .index import unparse
from .util import call_name

REL, ABS = 'REL', 'ABS'
PREDICATES = ('isscalar', 'isinstance', 'len', 'ndim', 'issubdtype', 'hasattr', 'callable', 'type', 'id', 'repr', 'str', 'is_integer',
              'isscalar_or_0d')
AXES = ('arange', 'range')
PRESERVING = ('list', 'tuple', 'int', 'index', 'asarray', 'array', 'asanyarray', 'atleast_1d', 'reversed', 'sorted', 'copy', 'deepcopy',
              'meshgrid', 'broadcast_arrays', 'ravel', 'flatten', 'astype', 'tolist', 'squeeze')


def _is_normalising_where(c, tags_of):
    # np.where(X < 0, X + n, X)
    if call_name(c) != 'where' or len(c.args) != 3:
        return False
    t, a, b = c.args
    if not (isinstance(t, ast.Compare) and len(t.ops) == 1 and isinstance(t.ops[0], ast.Lt) and isinstance(t.comparators[0], ast.Constant)
            and t.comparators[0].value == 0):
        return False
    x = unparse(t.left)
    return unparse(b) == x and isinstance(a, ast.BinOp) and isinstance(a.op, ast.Add) and x in (unparse(a.left), unparse(a.right))


def make_classifier(rel_names):
    """classify(expr, state) for a function whose parameters / fields in ``rel_names`` (source text of the expression, e.g.
    'view' or 'self._indices') hold caller-supplied indices."""

    def classify(e, state):
        if e is None:
            return set()
        if isinstance(e, ast.Name):
            if e.id in state:
                return {t for t in state[e.id] if t in (REL, ABS)}
            return {REL} if e.id in rel_names else set()
        if isinstance(e, ast.Attribute):
            if unparse(e) in rel_names:
                return {REL}
            if isinstance(e.value, ast.Name) or isinstance(e.value, ast.Attribute):
                t = classify(e.value, state)
                # .shape / .dtype / .ndim of anything is not an index
                if e.attr in ('shape', 'dtype', 'ndim', 'size'):
                    return set()
                return t
            return classify(e.value, state)
        if isinstance(e, ast.Constant):
            return set()
        if isinstance(e, ast.Subscript):
            base = classify(e.value, state)
            if REL in base:
                return {REL}            # an entry (or a re-ordered copy) of the caller's indices
            return base                  # the index is consumed by the indexing operation
        if isinstance(e, ast.Call):
            nm = call_name(e)
            if nm in PREDICATES:
                return set()
            if nm in AXES:
                return {ABS}
            if nm == 'indices' and isinstance(e.func, ast.Attribute):
                return {ABS}            # slice.indices(n)
            if nm in ('mod', 'remainder') and len(e.args) == 2:
                return {ABS}
            if _is_normalising_where(e, classify):
                return {ABS}
            if nm == 'take' and e.args and ABS in classify(e.args[0], state):
                return {ABS}
            # only copies / re-arrangements of indices are still indices; the result of any other call (data read through the
            # view, a shape, a count) is not
            if nm not in PRESERVING:
                return set()
            out = set()
            if isinstance(e.func, ast.Attribute) and nm in ('copy', 'ravel', 'flatten', 'astype', 'tolist'):
                out |= classify(e.func.value, state)
            for a in e.args:
                out |= classify(a, state)
            return out
        if isinstance(e, ast.BinOp):
            if isinstance(e.op, ast.Mod):
                return {ABS}
            return classify(e.left, state) | classify(e.right, state)
        if isinstance(e, (ast.Compare, ast.BoolOp)) and not (isinstance(e, ast.BoolOp) and isinstance(e.op, ast.Or)):
            return set()
        if isinstance(e, ast.BoolOp):
            # `x or default` yields one of its operands
            out = set()
            for v in e.values:
                out |= classify(v, state)
            return out
        if isinstance(e, ast.UnaryOp):
            return set() if isinstance(e.op, ast.Not) else classify(e.operand, state)
        if isinstance(e, ast.IfExp):
            return classify(e.body, state) | classify(e.orelse, state)
        if isinstance(e, (ast.Tuple, ast.List, ast.Set)):
            out = set()
            for x in e.elts:
                out |= classify(x, state)
            return out
        if isinstance(e, ast.Starred):
            return classify(e.value, state)
        if isinstance(e, (ast.ListComp, ast.GeneratorExp, ast.SetComp)):
            st = dict(state)
            for g in e.generators:
                bind_iteration(g.target, g.iter, st, classify)
            return classify(e.elt, st)
        if isinstance(e, ast.Slice):
            return classify(e.lower, state) | classify(e.upper, state) | classify(e.step, state)
        if isinstance(e, ast.NamedExpr):
            return classify(e.value, state)
        out = set()
        for c in ast.iter_child_nodes(e):
            if isinstance(c, ast.expr):
                out |= classify(c, state)
        return out
    return classify


def bind_iteration(target, it, state, classify):
    """for target in it: elementwise through zip / enumerate."""
    def bind(t, tags):
        if isinstance(t, ast.Name):
            state[t.id] = frozenset(tags)
        elif isinstance(t, (ast.Tuple, ast.List)):
            for x in t.elts:
                bind(x, tags)
        elif isinstance(t, ast.Starred):
            bind(t.value, tags)
    if isinstance(it, ast.Call) and isinstance(it.func, ast.Name) and it.func.id == 'zip' and isinstance(target, (ast.Tuple, ast.List)) \
            and len(target.elts) == len(it.args):
        for t, a in zip(target.elts, it.args):
            bind(t, classify(a, state))
        return
    if isinstance(it, ast.Call) and isinstance(it.func, ast.Name) and it.func.id == 'enumerate' and isinstance(target, (ast.Tuple, ast.List)) \
            and len(target.elts) == 2 and it.args:
        bind(target.elts[0], set())
        inner = it.args[0]
        bind_iteration(target.elts[1], inner, state, classify)
        return
    bind(target, classify(it, state))


def arithmetic_uses(node, classify, state_of):
    """(node, text) for every use of a REL value as an absolute position inside ``node``: an operand of + - * // (other than
    the normalising forms), or a bound of a ``slice(...)`` that also contains arithmetic on it."""
    out = []
    for n in ast.walk(node):
        if isinstance(n, ast.BinOp) and isinstance(n.op, (ast.Add, ast.Sub, ast.Mult, ast.FloorDiv, ast.Div)):
            st = state_of(n)
            for side in (n.left, n.right):
                if REL in classify(side, st) and ABS not in classify(side, st):
                    out.append((n, unparse(n)))
                    break
    return out


def flow_insensitive_env(fnode, classify, init=None):
    """name -> tags, joined over every binding in the function (assignments, loop and comprehension targets)."""
    env = dict(init or {})

    def add(t, tags):
        if isinstance(t, ast.Name):
            new = frozenset(set(env.get(t.id, frozenset())) | set(tags))
            if new != env.get(t.id):
                env[t.id] = new
                return True
        elif isinstance(t, (ast.Tuple, ast.List)):
            return any([add(x, tags) for x in t.elts])
        elif isinstance(t, ast.Starred):
            return add(t.value, tags)
        return False
    for _ in range(6):
        changed = False
        for n in ast.walk(fnode):
            if isinstance(n, ast.Assign):
                if len(n.targets) == 1 and isinstance(n.targets[0], (ast.Tuple, ast.List)) and isinstance(n.value, (ast.Tuple, ast.List)) \
                        and len(n.targets[0].elts) == len(n.value.elts):
                    for t, v in zip(n.targets[0].elts, n.value.elts):
                        changed |= add(t, classify(v, env))
                else:
                    for t in n.targets:
                        changed |= add(t, classify(n.value, env))
            elif isinstance(n, ast.AnnAssign) and n.value is not None:
                changed |= add(n.target, classify(n.value, env))
            elif isinstance(n, (ast.For, ast.AsyncFor)):
                st = dict(env)
                bind_iteration(n.target, n.iter, st, classify)
                for k, v in st.items():
                    if env.get(k) != v:
                        changed |= add(ast.Name(id=k, ctx=ast.Store()), v)
            elif isinstance(n, (ast.ListComp, ast.SetComp, ast.GeneratorExp, ast.DictComp)):
                for g in n.generators:
                    st = dict(env)
                    bind_iteration(g.target, g.iter, st, classify)
                    for k, v in st.items():
                        if env.get(k) != v:
                            changed |= add(ast.Name(id=k, ctx=ast.Store()), v)
            elif isinstance(n, ast.NamedExpr):
                changed |= add(n.target, classify(n.value, env))
        if not changed:
            break
    return env


def position_arithmetic(fnode, classify, init=None):
    """Uses of a caller-supplied (relative) index as if it were an absolute position: operand of + - * / //, augmented
    assignment, or `x or default` / raw `.start` / `.stop` reads feeding arithmetic.  -> [(node, text)]"""
    env = flow_insensitive_env(fnode, classify, init)
    out = []

    def rel_only(e):
        t = classify(e, env)
        return REL in t and ABS not in t
    for n in ast.walk(fnode):
        if isinstance(n, ast.BinOp) and isinstance(n.op, (ast.Add, ast.Sub, ast.Mult, ast.FloorDiv, ast.Div)):
            # string building is not arithmetic
            if any(isinstance(s, ast.Constant) and isinstance(s.value, str) for s in (n.left, n.right)) or \
                    any(isinstance(s, ast.JoinedStr) for s in (n.left, n.right)):
                continue
            if rel_only(n.left) or rel_only(n.right):
                out.append((n, unparse(n)))
        elif isinstance(n, ast.AugAssign) and isinstance(n.op, (ast.Add, ast.Sub, ast.Mult, ast.FloorDiv)) and \
                (rel_only(n.target) or rel_only(n.value)):
            out.append((n, unparse(n)))
        elif isinstance(n, ast.Compare) and len(n.ops) == 1 and isinstance(n.ops[0], (ast.Lt, ast.LtE, ast.Gt, ast.GtE)):
            # a relative index ordered against a normalised position
            a, b = n.left, n.comparators[0]
            if (rel_only(a) and ABS in classify(b, env)) or (rel_only(b) and ABS in classify(a, env)):
                out.append((n, unparse(n)))
    # keep the outermost expression only
    ids = {id(n) for n, _ in out}
    keep = []
    for n, t in out:
        inner = any(id(c) in ids for c in ast.walk(n) if c is not n)
        if not inner or True:
            keep.append((n, t))
    return keep, env
