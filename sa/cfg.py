"""E4 - statement-level control-flow graph for one function.

Nodes are integers; ``cfg.stmt[n]`` is the ast node a CFG node stands for
(a simple statement, or the *test/iter expression* of a compound one).
Edges carry a label: 'next', 'true', 'false', 'loop', 'exc', 'break',
'continue', 'return', 'raise', 'finally'.  Two synthetic nodes: ENTRY (0) and
EXIT (1, normal return) plus RAISE (2, exceptional exit).

Exceptional edges: explicit ``raise``; every statement inside a ``try`` body
gets an edge to each handler and to the ``finally`` block; a ``yield`` inside
a ``@contextmanager`` generator gets an 'exc' edge too (the body of the
``with`` may raise) - to the enclosing handlers/finally if any, else to RAISE.
"""
import ast

ENTRY, EXIT, RAISE = 0, 1, 2


class CFG(object):
    def __init__(self, func_node, yield_raises=False, calls_raise=False):
        self.func = func_node
        self.yield_raises = yield_raises
        self.calls_raise = calls_raise
        self.stmt = {ENTRY: None, EXIT: None, RAISE: None}
        self.kind = {ENTRY: 'entry', EXIT: 'exit', RAISE: 'raise-exit'}
        self.succ = {ENTRY: [], EXIT: [], RAISE: []}
        self.pred = {ENTRY: [], EXIT: [], RAISE: []}
        self._n = 3
        self.node_of = {}   # id(ast stmt) -> cfg node
        body = list(func_node.body)
        ends = self._seq(body, [(ENTRY, 'next')], _Ctx())
        for (n, lab) in ends:
            self._edge(n, EXIT, lab)

    # -- construction --------------------------------------------------------
    def _new(self, stmt, kind):
        n = self._n
        self._n += 1
        self.stmt[n] = stmt
        self.kind[n] = kind
        self.succ[n] = []
        self.pred[n] = []
        if stmt is not None and id(stmt) not in self.node_of:
            self.node_of[id(stmt)] = n
        return n

    def _edge(self, a, b, label='next'):
        if (b, label) not in self.succ[a]:
            self.succ[a].append((b, label))
            self.pred[b].append((a, label))

    def _connect(self, froms, n):
        for (a, lab) in froms:
            self._edge(a, n, lab)

    def _seq(self, stmts, froms, ctx):
        for st in stmts:
            froms = self._stmt(st, froms, ctx)
        return froms

    def _exc_targets(self, ctx):
        """Where an exception raised here goes."""
        if ctx.handlers is not None:
            return ctx.handlers
        return [RAISE]

    def _may_raise(self, n, st, ctx, force=False):
        inside_try = ctx.handlers is not None
        raises = force or inside_try
        if not raises and self.yield_raises and _has_yield(st):
            raises = True
        if not raises and self.calls_raise and _has_call(st):
            raises = True
        if self.yield_raises and _has_yield(st):
            raises = True
        if raises:
            for t in self._exc_targets(ctx):
                self._edge(n, t, 'exc')

    def _stmt(self, st, froms, ctx):
        if isinstance(st, ast.If):
            t = self._new(st, 'if')
            self._connect(froms, t)
            self._may_raise(t, st.test, ctx)
            a = self._seq(st.body, [(t, 'true')], ctx)
            b = self._seq(st.orelse, [(t, 'false')], ctx) if st.orelse else [(t, 'false')]
            return a + b
        if isinstance(st, (ast.For, ast.AsyncFor)):
            h = self._new(st, 'for')
            self._connect(froms, h)
            self._may_raise(h, st.iter, ctx)
            lctx = ctx.loop(h)
            body_end = self._seq(st.body, [(h, 'loop')], lctx)
            for (n, lab) in body_end:
                self._edge(n, h, lab if lab != 'next' else 'next')
            for n in lctx.continues:
                self._edge(n, h, 'continue')
            out = [(h, 'false')]
            if st.orelse:
                out = self._seq(st.orelse, out, ctx)
            out += [(n, 'break') for n in lctx.breaks]
            return out
        if isinstance(st, ast.While):
            h = self._new(st, 'while')
            self._connect(froms, h)
            self._may_raise(h, st.test, ctx)
            lctx = ctx.loop(h)
            body_end = self._seq(st.body, [(h, 'true')], lctx)
            for (n, lab) in body_end:
                self._edge(n, h, lab)
            for n in lctx.continues:
                self._edge(n, h, 'continue')
            const_true = isinstance(st.test, ast.Constant) and bool(st.test.value)
            out = [] if const_true else [(h, 'false')]
            if st.orelse:
                out = self._seq(st.orelse, out, ctx)
            out += [(n, 'break') for n in lctx.breaks]
            return out
        if isinstance(st, (ast.With, ast.AsyncWith)):
            w = self._new(st, 'with')
            self._connect(froms, w)
            self._may_raise(w, st, ctx)
            return self._seq(st.body, [(w, 'next')], ctx)
        if isinstance(st, ast.Try) or (hasattr(ast, 'TryStar') and isinstance(st, getattr(ast, 'TryStar'))):
            return self._try(st, froms, ctx)
        if isinstance(st, ast.Return):
            n = self._new(st, 'return')
            self._connect(froms, n)
            self._may_raise(n, st, ctx)
            self._leave(n, ctx, EXIT, 'return')
            return []
        if isinstance(st, ast.Raise):
            n = self._new(st, 'raise')
            self._connect(froms, n)
            for t in self._exc_targets(ctx):
                self._edge(n, t, 'raise')
            return []
        if isinstance(st, ast.Break):
            n = self._new(st, 'break')
            self._connect(froms, n)
            if ctx.breaks is not None:
                ctx.breaks.append(n)
            return []
        if isinstance(st, ast.Continue):
            n = self._new(st, 'continue')
            self._connect(froms, n)
            if ctx.continues is not None:
                ctx.continues.append(n)
            return []
        if hasattr(ast, 'Match') and isinstance(st, ast.Match):
            m = self._new(st, 'match')
            self._connect(froms, m)
            out = [(m, 'false')]
            for case in st.cases:
                out += self._seq(case.body, [(m, 'true')], ctx)
            return out
        if isinstance(st, (ast.FunctionDef, ast.AsyncFunctionDef, ast.ClassDef)):
            n = self._new(st, 'def')
            self._connect(froms, n)
            return [(n, 'next')]
        # simple statement
        n = self._new(st, 'stmt')
        self._connect(froms, n)
        self._may_raise(n, st, ctx, force=isinstance(st, ast.Assert))
        return [(n, 'next')]

    def _leave(self, n, ctx, target, label):
        """return (or fall out) through enclosing finally blocks."""
        if ctx.finally_entry is not None:
            # route through the innermost finally; its end continues to target
            ctx.finally_pending.append((n, target, label))
        else:
            self._edge(n, target, label)

    def _try(self, st, froms, ctx):
        has_finally = bool(st.finalbody)
        # finally block is built lazily: we need its entry for edges
        fin_entry_placeholder = self._new(None, 'finally-entry') if has_finally else None
        outer_targets = self._exc_targets(ctx)
        handler_entries = []
        for h in st.handlers:
            hn = self._new(h, 'except')
            handler_entries.append(hn)
        body_targets = list(handler_entries)
        catches_all = any(h.type is None or (isinstance(h.type, ast.Name) and h.type.id in ('Exception', 'BaseException'))
                          for h in st.handlers)
        if not catches_all:
            body_targets += [fin_entry_placeholder] if has_finally else outer_targets
        bctx = ctx.try_body(body_targets, fin_entry_placeholder)
        t = self._new(st, 'try')
        self._connect(froms, t)
        body_end = self._seq(st.body, [(t, 'next')], bctx)
        if st.orelse:
            octx = ctx.try_body([fin_entry_placeholder] if has_finally else None, fin_entry_placeholder) \
                if has_finally else ctx
            if not has_finally:
                octx = ctx
            body_end = self._seq(st.orelse, body_end, octx)
        ends = list(body_end)
        hctx = ctx.try_body([fin_entry_placeholder], fin_entry_placeholder) if has_finally else ctx
        for h, hn in zip(st.handlers, handler_entries):
            ends += self._seq(h.body, [(hn, 'next')], hctx)
        pend = bctx.finally_pending + (hctx.finally_pending if hctx is not ctx else [])
        if st.orelse and has_finally:
            pend += octx.finally_pending
        if not has_finally:
            return ends
        # finally: normal completion
        self._connect(ends, fin_entry_placeholder)
        fin_end = self._seq(st.finalbody, [(fin_entry_placeholder, 'finally')], ctx)
        out = []
        normal_in = bool(ends)
        exc_in = any(lab in ('exc', 'raise') for (_, lab) in self.pred[fin_entry_placeholder])
        if normal_in:
            out += fin_end
        if exc_in:
            for (n, lab) in fin_end:
                for tgt in outer_targets:
                    self._edge(n, tgt, 'exc')
        for (n, target, label) in pend:
            self._edge(n, fin_entry_placeholder, label)
            for (fn, lab) in fin_end:
                self._leave(fn, ctx, target, label)
        return out

    # -- queries ---------------------------------------------------------------
    def nodes(self):
        return list(self.stmt)

    def find(self, pred):
        return [n for n, st in self.stmt.items() if st is not None and pred(st)]

    def node_for(self, stmt):
        return self.node_of.get(id(stmt))

    def reachable_from(self, start, avoid=(), labels_excluded=()):
        seen = set()
        todo = [start]
        avoid = set(avoid)
        while todo:
            n = todo.pop()
            if n in seen:
                continue
            seen.add(n)
            for (s, lab) in self.succ[n]:
                if lab in labels_excluded:
                    continue
                if s in avoid:
                    continue
                todo.append(s)
        return seen

    def path_avoiding(self, start, goal, avoid, labels_excluded=(), pruned_edges=()):
        """A path start -> goal that does not pass through ``avoid`` nodes
        (start itself is exempt), or None."""
        avoid = set(avoid)
        prev = {start: None}
        todo = [start]
        pruned = set(pruned_edges)
        while todo:
            n = todo.pop(0)
            if n == goal:
                path = []
                while n is not None:
                    path.append(n)
                    n = prev[n]
                return list(reversed(path))
            for (s, lab) in self.succ[n]:
                if lab in labels_excluded or (n, s, lab) in pruned or (n, lab) in pruned:
                    continue
                if s in avoid or s in prev:
                    continue
                prev[s] = n
                todo.append(s)
        return None

    # -- path-sensitive search: the truth values of boolean locals are carried along the path ---------------------------------
    def _untracked(self):
        """Locals whose value cannot be followed statement by statement: rebound inside a nested function / lambda / class."""
        out = set()
        for n in ast.walk(self.func):
            if n is not self.func and isinstance(n, (ast.FunctionDef, ast.AsyncFunctionDef, ast.Lambda, ast.ClassDef)):
                for x in ast.walk(n):
                    if isinstance(x, (ast.Nonlocal, ast.Global)):
                        out |= set(x.names)
        return out

    @staticmethod
    def _truth(e, env, assumed):
        """Three-valued value of a test: True / False / None (unknown)."""
        t = None
        if assumed:
            try:
                t = ast.unparse(e)
            except Exception:
                t = None
            if t in assumed:
                return assumed[t]
        if assumed and isinstance(e, ast.Compare) and len(e.ops) == 1 and isinstance(e.ops[0], (ast.Is, ast.IsNot)) and \
                isinstance(e.comparators[0], ast.Constant) and e.comparators[0].value is None:
            # `X is None` is decided by an assumption about `X is not None` (and the other way round)
            try:
                lt = ast.unparse(e.left)
            except Exception:
                lt = None
            if lt is not None:
                other = '%s is not None' % lt if isinstance(e.ops[0], ast.Is) else '%s is None' % lt
                if other in assumed:
                    return not assumed[other]
        if isinstance(e, ast.Name):
            return env.get(e.id)
        if isinstance(e, ast.Constant):
            return bool(e.value)
        if isinstance(e, ast.UnaryOp) and isinstance(e.op, ast.Not):
            v = CFG._truth(e.operand, env, assumed)
            return None if v is None else (not v)
        if isinstance(e, ast.Call) and isinstance(e.func, ast.Name) and e.func.id in ('any', 'all') and len(e.args) == 1 and not e.keywords:
            # any([a, b, c]) / all((a, b)): the disjunction / conjunction of the elements (also through a local list, see _seqs)
            seq = CFG._elements(e.args[0], env)
            if seq is not None:
                vals = [CFG._truth(v, env, assumed) for v in seq]
                if e.func.id == 'any':
                    if any(v is True for v in vals):
                        return True
                    return False if all(v is False for v in vals) else None
                if any(v is False for v in vals):
                    return False
                return True if all(v is True for v in vals) else None
        if isinstance(e, ast.BoolOp):
            vals = [CFG._truth(v, env, assumed) for v in e.values]
            if isinstance(e.op, ast.And):
                if any(v is False for v in vals):
                    return False
                return True if all(v is True for v in vals) else None
            if any(v is True for v in vals):
                return True
            return False if all(v is False for v in vals) else None
        if isinstance(e, ast.Compare) and len(e.ops) == 1 and isinstance(e.ops[0], (ast.Is, ast.IsNot)) and \
                isinstance(e.left, ast.Name) and isinstance(e.comparators[0], ast.Constant) and e.comparators[0].value is None:
            v = env.get('%s is None' % e.left.id)
            if v is None:
                return None
            return v if isinstance(e.ops[0], ast.Is) else (not v)
        return None

    @staticmethod
    def _elements(e, env):
        """The element expressions of a list / tuple display, or of a local that was bound to one (kept in env under ('seq', name))."""
        if isinstance(e, (ast.List, ast.Tuple)) and not any(isinstance(x, ast.Starred) for x in e.elts):
            return list(e.elts)
        if isinstance(e, ast.Name):
            return env.get(('seq', e.id))
        return None

    @staticmethod
    def _assume(e, value, env, assumed):
        """Refine ``env`` (in place) with the knowledge that the test evaluated to ``value``."""
        if isinstance(e, ast.Call) and isinstance(e.func, ast.Name) and e.func.id in ('any', 'all') and len(e.args) == 1 and not e.keywords:
            seq = CFG._elements(e.args[0], env)
            if seq is not None:
                if e.func.id == 'any' and value is False or e.func.id == 'all' and value is True:
                    for v in seq:
                        CFG._assume(v, value, env, assumed)
                else:
                    und = [v for v in seq if CFG._truth(v, env, assumed) is None]
                    if len(und) == 1:
                        CFG._assume(und[0], value, env, assumed)
            return
        if isinstance(e, ast.Name):
            env[e.id] = value
            if value:
                env['%s is None' % e.id] = False
        elif isinstance(e, ast.UnaryOp) and isinstance(e.op, ast.Not):
            CFG._assume(e.operand, not value, env, assumed)
        elif isinstance(e, ast.BoolOp):
            conj = isinstance(e.op, ast.And)
            if value == conj:          # every conjunct true / every disjunct false
                for v in e.values:
                    CFG._assume(v, value, env, assumed)
            else:                       # exactly one operand undecided: it carries the outcome
                und = [v for v in e.values if CFG._truth(v, env, assumed) is None]
                if len(und) == 1:
                    CFG._assume(und[0], value, env, assumed)
        elif isinstance(e, ast.Compare) and len(e.ops) == 1 and isinstance(e.ops[0], (ast.Is, ast.IsNot)) and \
                isinstance(e.left, ast.Name) and isinstance(e.comparators[0], ast.Constant) and e.comparators[0].value is None:
            env['%s is None' % e.left.id] = value if isinstance(e.ops[0], ast.Is) else (not value)

    @staticmethod
    def _kill(env, names):
        for nm in names:
            env.pop(nm, None)
            env.pop('%s is None' % nm, None)
            env.pop(('seq', nm), None)
            # a list of flags that names the re-bound local no longer says what it said
            for k in [k for k, v in env.items() if isinstance(k, tuple) and k[0] == 'seq' and
                      any(isinstance(x, ast.Name) and x.id == nm for el in v for x in ast.walk(el))]:
                env.pop(k, None)

    def _transfer(self, n, env, exceptional):
        """Effect of the node's own statement on the tracked locals."""
        st = self.stmt[n]
        kind = self.kind[n]
        if st is None:
            return
        if kind == 'stmt':
            before = dict(env)
            if isinstance(st, ast.Assign):
                for t in st.targets:
                    if isinstance(t, ast.Name):
                        self._kill(env, [t.id])
                        if exceptional:
                            continue
                        v = st.value
                        if isinstance(v, ast.Constant):
                            env[t.id] = bool(v.value)
                            env['%s is None' % t.id] = v.value is None
                        elif isinstance(v, (ast.List, ast.Tuple, ast.Dict, ast.Set, ast.ListComp, ast.DictComp, ast.SetComp,
                                            ast.JoinedStr, ast.Lambda, ast.GeneratorExp)):
                            env['%s is None' % t.id] = False
                            if isinstance(v, (ast.List, ast.Tuple, ast.Dict, ast.Set)):
                                env[t.id] = bool(v.elts if not isinstance(v, ast.Dict) else v.keys)
                            if isinstance(v, (ast.List, ast.Tuple)) and v.elts and all(isinstance(x, ast.Name) for x in v.elts):
                                env[('seq', t.id)] = tuple(v.elts)
                        elif isinstance(v, ast.Name) and not exceptional:
                            for k in (v.id, '%s is None' % v.id):
                                if k in env:
                                    env[k.replace(v.id, t.id, 1)] = env[k]
                        elif isinstance(v, (ast.BoolOp, ast.UnaryOp)) and not exceptional:
                            # `changed = found or changed`: decided when the operands are (the old value of the target was
                            # read before it was killed: evaluate against the environment before this statement)
                            tv = CFG._truth(v, before, None)
                            if tv is not None and all(isinstance(x, (ast.Name, ast.BoolOp, ast.UnaryOp, ast.And, ast.Or, ast.Not, ast.Load, ast.Constant))
                                                      for x in ast.walk(v)):
                                env[t.id] = tv
                    else:
                        self._kill(env, [x.id for x in ast.walk(t) if isinstance(x, ast.Name) and isinstance(x.ctx, ast.Store)])
            elif isinstance(st, (ast.AugAssign, ast.AnnAssign)):
                self._kill(env, [x.id for x in ast.walk(st.target) if isinstance(x, ast.Name)])
            elif isinstance(st, ast.Delete):
                self._kill(env, [x.id for t in st.targets for x in ast.walk(t) if isinstance(x, ast.Name)])
            elif isinstance(st, (ast.Import, ast.ImportFrom)):
                self._kill(env, [(a.asname or a.name).split('.')[0] for a in st.names])
            # walrus targets anywhere in the statement
            self._kill(env, [x.target.id for x in ast.walk(st) if isinstance(x, ast.NamedExpr) and isinstance(x.target, ast.Name)])
        elif kind == 'for':
            self._kill(env, [x.id for x in ast.walk(st.target) if isinstance(x, ast.Name)])
        elif kind == 'with':
            for it in st.items:
                if it.optional_vars is not None:
                    self._kill(env, [x.id for x in ast.walk(it.optional_vars) if isinstance(x, ast.Name)])
        elif kind == 'except':
            if getattr(st, 'name', None):
                self._kill(env, [st.name])
        elif kind == 'def':
            self._kill(env, [st.name])
        elif kind in ('if', 'while', 'return'):
            e = st.test if kind != 'return' else st.value
            if e is not None:
                self._kill(env, [x.target.id for x in ast.walk(e) if isinstance(x, ast.NamedExpr) and isinstance(x.target, ast.Name)])

    def feasible_path(self, start, goal, avoid=(), labels_excluded=(), pruned_edges=(), assumed=None, max_states=20000):
        """Like ``path_avoiding``, but a path is followed only as long as the truth values of the function's boolean locals
        allow it: constants bound to plain locals, and what the outcome of an ``if`` / ``while`` test says about the locals it
        names, are carried along, and an edge whose test is then known to come out the other way is not taken.  ``assumed``
        ({expression text: bool}) fixes the outcome of tests the caller wants decided (hub presence).  Everything not tracked
        is unknown, so every really feasible path is still found: a None answer means there is none.
        The environments in which ``start`` can be reached (from the entry) are the starting points."""
        avoid = set(avoid)
        pruned = set(pruned_edges)
        untracked = self._untracked()
        assumed = dict(assumed or {})

        def step(n, env, restrict=True):
            """[(successor, label, env')] for the feasible out-edges of n."""
            out = []
            st, kind = self.stmt[n], self.kind[n]
            for (s, lab) in self.succ[n]:
                if restrict and (lab in labels_excluded or (n, s, lab) in pruned or (n, lab) in pruned):
                    continue
                e2 = dict(env)
                self._transfer(n, e2, exceptional=lab in ('exc', 'raise'))
                if kind in ('if', 'while') and lab in ('true', 'false'):
                    want = lab == 'true'
                    v = self._truth(st.test, e2, assumed)
                    if v is not None and v != want:
                        continue
                    self._assume(st.test, want, e2, assumed)
                for u in untracked:
                    self._kill(e2, [u])
                out.append((s, lab, e2))
            return out

        def key(n, env):
            return (n, frozenset(env.items()))
        # phase 1: the environments in which start is reached
        starts = []
        if start == ENTRY:
            starts = [{}]
        else:
            seen = {key(ENTRY, {})}
            todo = [(ENTRY, {})]
            while todo and len(seen) < max_states:
                n, env = todo.pop()
                for s, lab, e2 in step(n, env, restrict=False):
                    k = key(s, e2)
                    if k in seen:
                        continue
                    seen.add(k)
                    if s == start and e2 not in starts:
                        starts.append(e2)
                    todo.append((s, e2))
            if not starts or len(seen) >= max_states:
                starts = [{}]
        # phase 2: from start to goal
        for env0 in starts:
            k0 = key(start, env0)
            prev = {k0: None}
            todo = [(start, env0)]
            while todo:
                n, env = todo.pop(0)
                if n == goal:
                    path, k = [], key(n, env)
                    while k is not None:
                        path.append(k[0])
                        k = prev[k]
                    return list(reversed(path))
                if len(prev) > max_states:
                    return self.path_avoiding(start, goal, avoid, labels_excluded, pruned_edges)
                for s, lab, e2 in step(n, env):
                    if s in avoid:
                        continue
                    k = key(s, e2)
                    if k in prev:
                        continue
                    prev[k] = key(n, env)
                    todo.append((s, e2))
        return None

    def dominators(self, entry=ENTRY):
        """node -> set of dominators (iterative; graphs are tiny)."""
        nodes = self.reachable_from(entry)
        dom = {n: set(nodes) for n in nodes}
        dom[entry] = {entry}
        changed = True
        while changed:
            changed = False
            for n in nodes:
                if n == entry:
                    continue
                ps = [p for (p, _) in self.pred[n] if p in nodes]
                new = set(nodes)
                for p in ps:
                    new &= dom[p]
                new = new | {n} if ps else {n}
                if new != dom[n]:
                    dom[n] = new
                    changed = True
        return dom

    def dominates(self, a, b, dom=None):
        dom = dom or self.dominators()
        return b in dom and a in dom[b]

    def describe(self, n):
        st = self.stmt[n]
        if st is None:
            return self.kind[n]
        if isinstance(st, ast.If):
            return 'if %s' % _short(st.test)
        if isinstance(st, (ast.For,)):
            return 'for %s in %s' % (_short(st.target), _short(st.iter))
        if isinstance(st, ast.While):
            return 'while %s' % _short(st.test)
        if isinstance(st, ast.With):
            return 'with %s' % ', '.join(_short(i.context_expr) for i in st.items)
        if isinstance(st, ast.Try):
            return 'try'
        if isinstance(st, ast.ExceptHandler):
            return 'except %s' % (_short(st.type) if st.type is not None else '')
        return _short(st)

    def guards_on_path(self, path):
        """Human-readable branch decisions taken along a node path."""
        out = []
        for a, b in zip(path, path[1:]):
            if self.kind[a] in ('if', 'while', 'for', 'match'):
                labs = [lab for (s, lab) in self.succ[a] if s == b]
                out.append('%s -> %s' % (self.describe(a), '/'.join(labs)))
        return out


class _Ctx(object):
    def __init__(self):
        self.handlers = None
        self.finally_entry = None
        self.finally_pending = []
        self.breaks = None
        self.continues = None

    def loop(self, header):
        c = _Ctx()
        c.handlers = self.handlers
        c.finally_entry = self.finally_entry
        c.finally_pending = self.finally_pending
        c.breaks = []
        c.continues = []
        return c

    def try_body(self, handlers, finally_entry):
        c = _Ctx()
        c.handlers = handlers if handlers is not None else self.handlers
        c.finally_entry = finally_entry if finally_entry is not None else self.finally_entry
        c.finally_pending = [] if finally_entry is not None else self.finally_pending
        c.breaks = self.breaks
        c.continues = self.continues
        return c


def _short(node):
    s = ' '.join(ast.unparse(node).split())
    return s if len(s) <= 90 else s[:87] + '...'


def _has_yield(node):
    for n in ast.walk(node):
        if isinstance(n, (ast.Yield, ast.YieldFrom)):
            return True
    return False


def _has_call(node):
    for n in ast.walk(node):
        if isinstance(n, ast.Call):
            return True
    return False
