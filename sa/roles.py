"""Index-role inference for the axis-correlation matrix (rows = world axes, columns = pixel axes).

A small flow-insensitive, inter-procedural (within one module) type inference over the functions that
handle ``axis_correlation_matrix``: every name gets the set of *kinds* it is used as -

    M    the matrix itself (also after ``[::-1, ::-1]``, which flips both axes and keeps the roles)
    Wv   a vector indexed by world axis (a column of M, ``M[...].any(axis=1)``, a mask used as row selector)
    Pv   a vector indexed by pixel axis (a row of M, ``M[...].any(axis=0)``, a mask used as column selector)
    Wi   an index of a world axis (row subscript of M, subscript of a Wv)
    Pi   an index of a pixel axis (column subscript of M, subscript of a Pv)

The roles of a function parameter are what the function uses it as; a call site that passes an index of
another role is a role error.  Nothing is executed.
"""
import ast

from .index import unparse, walk_no_nested

WORLD, PIXEL = 'world', 'pixel'
KIND_ROLE = {'Wv': WORLD, 'Wi': WORLD, 'Pv': PIXEL, 'Pi': PIXEL}


def _full_slice(e):
    return isinstance(e, ast.Slice) and e.lower is None and e.upper is None


class ModuleRoles(object):
    def __init__(self, funcs):
        """funcs: {name: ast.FunctionDef} of one module."""
        self.funcs = funcs
        self.env = {name: {} for name in funcs}          # func -> name -> set(kinds)
        self.ret = {name: [] for name in funcs}          # func -> list (per tuple position) of set(kinds); [set] for a single value
        self.direct = {name: {} for name in funcs}       # func -> name -> list of ast nodes the name was assigned a direct row/column from
        changed = True
        n = 0
        while changed and n < 20:
            changed = False
            n += 1
            for name, node in funcs.items():
                if self._pass(name, node):
                    changed = True

    # -- helpers -----------------------------------------------------------------------
    def params(self, fname):
        a = self.funcs[fname].args
        return [x.arg for x in a.posonlyargs + a.args] + ([a.vararg.arg] if a.vararg else []) + [x.arg for x in a.kwonlyargs]

    def roles_of(self, fname, var):
        return {KIND_ROLE[k] for k in self.env[fname].get(var, ()) if k in KIND_ROLE}

    def _add(self, fname, var, kinds):
        cur = self.env[fname].setdefault(var, set())
        new = set(kinds) - cur
        if new:
            cur |= new
            self._changed = True

    def _index_use(self, fname, sel, idx):
        """An index expression used directly as row (Wi) / column (Pi) selector of the matrix."""
        uses = self.__dict__.setdefault('index_uses', {}).setdefault(fname, [])
        if not any(u is sel for u, _ in uses):
            uses.append((sel, idx))

    def _names(self, e):
        return [x.id for x in ast.walk(e) if isinstance(x, ast.Name)]

    def kind(self, fname, e):
        """Kinds of expression ``e`` (a set)."""
        env = self.env[fname]
        if isinstance(e, ast.Name):
            return set(env.get(e.id, ()))
        if isinstance(e, ast.Attribute) and e.attr == 'axis_correlation_matrix':
            return {'M'}
        if isinstance(e, ast.Subscript):
            base = self.kind(fname, e.value)
            sl = e.slice
            if 'M' in base and isinstance(sl, ast.Tuple) and len(sl.elts) == 2:
                a, b = sl.elts
                if isinstance(a, ast.Slice) and isinstance(b, ast.Slice) and a.lower is None and a.upper is None and b.lower is None and b.upper is None:
                    return {'M'}                       # [::-1, ::-1] / [:, :]
                if _full_slice(a) or (isinstance(a, ast.Slice)):
                    if isinstance(b, ast.Slice) or self._is_vector(fname, b):
                        return {'M'}                   # still world x (some pixels)
                    return {'Wv'}                      # one column
                if _full_slice(b) or isinstance(b, ast.Slice):
                    if self._is_vector(fname, a):
                        return {'M'}
                    return {'Pv'}                      # one row
                return set()
            if isinstance(sl, ast.Constant) and isinstance(e.value, ast.Call) and unparse(e.value.func) in ('np.nonzero', 'np.where'):
                return self.kind(fname, e.value)
            if isinstance(sl, ast.Constant) and isinstance(e.value, ast.Name) and isinstance(sl.value, int):
                # t = f(...); t[k]
                r = getattr(self, '_tuples', {}).get(fname, {}).get(e.value.id)
                if r and 0 <= sl.value < len(r):
                    return set(r[sl.value])
            if isinstance(sl, ast.Constant) and isinstance(e.value, ast.Call):
                # f(...)[k]
                r = self._call_ret(fname, e.value)
                if r and isinstance(sl.value, int) and sl.value < len(r):
                    return set(r[sl.value])
            return set()
        if isinstance(e, ast.BinOp) and isinstance(e.op, (ast.BitAnd, ast.BitOr)):
            l, r = self.kind(fname, e.left), self.kind(fname, e.right)
            if 'M' in l or 'M' in r:
                return {'M'}
            return (l | r) & {'Wv', 'Pv'}
        if isinstance(e, ast.Call):
            if isinstance(e.func, ast.Attribute) and e.func.attr in ('any', 'all', 'sum'):
                base = self.kind(fname, e.func.value)
                ax = [k.value for k in e.keywords if k.arg == 'axis'] or e.args[:1]
                if 'M' in base and ax and isinstance(ax[0], ast.Constant):
                    return {'Wv'} if ax[0].value == 1 else ({'Pv'} if ax[0].value == 0 else set())
                return set()
            if isinstance(e.func, ast.Attribute) and e.func.attr in ('copy', 'astype'):
                return self.kind(fname, e.func.value)
            fn = unparse(e.func)
            if fn in ('tuple', 'list', 'np.asarray', 'np.array', 'sorted') and len(e.args) == 1:
                return self.kind(fname, e.args[0])
            if fn in ('np.nonzero', 'np.where', 'np.flatnonzero') and len(e.args) == 1:
                # positions where a role-indexed vector is set: indices of that role
                base = self.kind(fname, e.args[0])
                return ({'Wi'} if 'Wv' in base else set()) | ({'Pi'} if 'Pv' in base else set())
            r = self._call_ret(fname, e)
            if r and len(r) == 1:
                return set(r[0])
            return set()
        return set()

    def _is_vector(self, fname, e):
        return isinstance(e, ast.Name) and bool(self.env[fname].get(e.id, set()) & {'Wv', 'Pv'}) or \
            (isinstance(e, ast.Name) and e.id in self._vector_like.get(fname, ()))

    def _call_ret(self, fname, call):
        g = call.func.id if isinstance(call.func, ast.Name) else None
        if g in self.funcs:
            return self.ret[g]
        return None

    # -- one pass over a function ------------------------------------------------------------
    def _pass(self, fname, node):
        self._changed = False
        self._vector_like = getattr(self, '_vector_like', {})
        vl = self._vector_like.setdefault(fname, set())
        # names created as arrays (np.zeros / np.ones ... ) can be masks
        for st in walk_no_nested(node):
            if isinstance(st, ast.Assign) and isinstance(st.value, ast.Call) and unparse(st.value.func) in ('np.zeros', 'np.ones', 'np.zeros_like', 'np.array'):
                for t in st.targets:
                    if isinstance(t, ast.Name):
                        vl.add(t.id)
        for p in self.params(fname):
            if p in ('pixel', 'world') and fname.startswith('_'):
                vl.add(p)
        for n in walk_no_nested(node):
            # uses as selectors of the matrix
            if isinstance(n, ast.Subscript):
                base = self.kind(fname, n.value)
                sl = n.slice
                if 'M' in base and isinstance(sl, ast.Tuple) and len(sl.elts) == 2:
                    for pos, sel in enumerate(sl.elts):
                        vec, idx = ('Wv', 'Wi') if pos == 0 else ('Pv', 'Pi')
                        if isinstance(sel, ast.Slice):
                            for part in (sel.lower, sel.upper):
                                if part is not None:
                                    for nm in self._names(part):
                                        self._add(fname, nm, {idx})
                        elif isinstance(sel, ast.Name):
                            self._add(fname, sel.id, {vec} if (sel.id in vl or self.env[fname].get(sel.id, set()) & {'Wv', 'Pv'}) else {idx})
                            if not (sel.id in vl or self.env[fname].get(sel.id, set()) & {'Wv', 'Pv'}):
                                self._index_use(fname, sel, idx)
                        elif isinstance(sel, (ast.Attribute, ast.Subscript, ast.BinOp, ast.Call)):
                            self._index_use(fname, sel, idx)      # e.g. matrix[:, comp.axis]
                elif base & {'Wv', 'Pv'} and not isinstance(sl, (ast.Tuple, ast.Slice)):
                    idx = set()
                    if 'Wv' in base:
                        idx.add('Wi')
                    if 'Pv' in base:
                        idx.add('Pi')
                    for nm in self._names(sl):
                        self._add(fname, nm, idx)
            # masks combined with | and & have one role: a name of unknown kind takes the kind of the other operand
            if isinstance(n, ast.BinOp) and isinstance(n.op, (ast.BitAnd, ast.BitOr)):
                l, r = self.kind(fname, n.left), self.kind(fname, n.right)
                for a, other in ((n.left, r), (n.right, l)):
                    if isinstance(a, ast.Name) and other & {'Wv', 'Pv'} and 'M' not in other:
                        self._add(fname, a.id, other & {'Wv', 'Pv'})
            if isinstance(n, ast.AugAssign) and isinstance(n.op, (ast.BitAnd, ast.BitOr)):
                tgt = n.target.value if isinstance(n.target, ast.Subscript) else n.target
                k = self.kind(fname, n.value) & {'Wv', 'Pv'}
                if isinstance(tgt, ast.Name) and k:
                    self._add(fname, tgt.id, k)
            # assignments
            if isinstance(n, ast.Assign) and len(n.targets) == 1 and isinstance(n.targets[0], ast.Tuple) and isinstance(n.value, ast.Tuple) \
                    and len(n.targets[0].elts) == len(n.value.elts):
                for x, v in zip(n.targets[0].elts, n.value.elts):
                    if isinstance(x, ast.Name):
                        k = self.kind(fname, v)
                        if k:
                            self._add(fname, x.id, k)
            if isinstance(n, ast.Assign):
                for t in n.targets:
                    if isinstance(t, ast.Name):
                        k = self.kind(fname, n.value)
                        if k:
                            self._add(fname, t.id, k)
                        if isinstance(n.value, ast.Name):
                            # `t = v`: two names of one object - what t is used as, v is used as
                            kb = set(self.env[fname].get(t.id, ()))
                            if kb:
                                self._add(fname, n.value.id, kb)
                            if n.value.id in vl and t.id not in vl:
                                vl.add(t.id)
                                self._changed = True
                            if t.id in vl and n.value.id not in vl:
                                vl.add(n.value.id)
                                self._changed = True
                        if isinstance(n.value, ast.Call):
                            r = self._call_ret(fname, n.value)
                            if r and len(r) > 1:
                                self._tuples = getattr(self, '_tuples', {})
                                cur = self._tuples.setdefault(fname, {})
                                if cur.get(t.id) != r:
                                    cur[t.id] = r
                                    self._changed = True
                        if isinstance(n.value, ast.Subscript) and 'M' in self.kind(fname, n.value.value) and k & {'Wv', 'Pv'}:
                            self.direct[fname].setdefault(t.id, []).append(n)
                    elif isinstance(t, ast.Tuple) and isinstance(n.value, ast.Call):
                        r = self._call_ret(fname, n.value)
                        if r and len(r) == len(t.elts):
                            for x, ks in zip(t.elts, r):
                                if isinstance(x, ast.Name) and ks:
                                    self._add(fname, x.id, ks)
            # calls into the module: arguments <-> parameters
            if isinstance(n, ast.Call) and isinstance(n.func, ast.Name) and n.func.id in self.funcs:
                g = n.func.id
                ps = self.params(g)
                for i, a in enumerate(n.args):
                    if i < len(ps) and not isinstance(a, ast.Starred):
                        ka = self.kind(fname, a)
                        if ka:
                            before = set(self.env[g].get(ps[i], ()))
                            self.env[g].setdefault(ps[i], set()).update(ka)
                            if self.env[g][ps[i]] != before:
                                self._changed = True
                        if isinstance(a, ast.Name):
                            kp = self.env[g].get(ps[i], set()) - {'M'} if 'M' not in ka else set()
                            if kp:
                                self._add(fname, a.id, kp)
            # returns
            if isinstance(n, ast.Return) and n.value is not None:
                vals = n.value.elts if isinstance(n.value, ast.Tuple) else [n.value]
                ks = [self.kind(fname, v) for v in vals]
                if len(self.ret[fname]) != len(ks):
                    self.ret[fname] = [set() for _ in ks]
                    self._changed = True
                for cur, k in zip(self.ret[fname], ks):
                    if k - cur:
                        cur |= k
                        self._changed = True
        return self._changed
