"""Static analysis engine for the glue-core properties (see /verif/DESIGN.md)."""
