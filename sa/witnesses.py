"""Witness (W) and twin (T) catalogue: textual edits of the current tree evaluated in memory."""
CASES = []


def W(cid, prop, expect, *edits):
    CASES.append(dict(id=cid, prop=prop, kind='witness', expect=expect, edits=[tuple(e) for e in edits]))


def T(cid, prop, *edits):
    CASES.append(dict(id=cid, prop=prop, kind='twin', expect=None, edits=[tuple(e) for e in edits]))


SUBSET = 'glue/core/subset.py'
STATE = 'glue/core/state.py'
DATA = 'glue/core/data.py'
HUB = 'glue/core/hub.py'
ESM = 'glue/core/edit_subset_mode.py'
CID = 'glue/core/component_id.py'
DC = 'glue/core/data_collection.py'
LM = 'glue/core/link_manager.py'
CMD = 'glue/core/command.py'
ROI = 'glue/core/roi.py'
LH = 'glue/core/link_helpers.py'
DECO = 'glue/core/decorators.py'

# ------------------------------------------------------------------ C01
W('C01-W-and-op-or', 'C01', 'C01.a', (SUBSET, "    op = operator.and_\n", "    op = operator.or_\n"))
W('C01-W-dunder-and-builds-or', 'C01', 'C01.a', (SUBSET, "        return AndState(self, other_state)", "        return OrState(self, other_state)"))
W('C01-W-andnot-swapped', 'C01', 'C01.c', (ESM, "state = edit_subset.subset_state & (~new_state)", "state = new_state & (~edit_subset.subset_state)"))
W('C01-W-multior-no-copy', 'C01', 'C01.d(iv)', (SUBSET, "result = self.states[0].to_mask(data, view=view).copy()", "result = self.states[0].to_mask(data, view=view)"))
W('C01-W-ctor-no-copy', 'C01', 'C01.d(i)', (SUBSET, "        self.state1 = state1.copy()\n", "        self.state1 = state1\n"))
W('C01-W-range-copy-deleted', 'C01', 'C01.d(ii)', (SUBSET, "    def copy(self):\n        return RangeSubsetState(self.lo, self.hi, self.att)\n", ""))
W('C01-W-roi-copy-forgets-pretransform', 'C01', 'C01.d(iii)', (SUBSET, "        result.roi = self.roi\n        result.pretransform = self.pretransform\n        return result\n\n\nclass CategoricalROISubsetState", "        result.roi = self.roi\n        return result\n\n\nclass CategoricalROISubsetState"))
W('C01-W-cid-gt-ge', 'C01', 'C01.a', (CID, "return InequalitySubsetState(self, other, operator.gt)", "return InequalitySubsetState(self, other, operator.ge)"))
W('C01-W-invert-returns-child', 'C01', 'C01.a', (SUBSET, "        return ~self.state1.to_mask(data, view)", "        return self.state1.to_mask(data, view)"))
W('C01-W-composite-child-no-view', 'C01', 'C01.b', (SUBSET, "        return self.op(self.state1.to_mask(data, view),\n                       self.state2.to_mask(data, view))", "        return self.op(self.state1.to_mask(data, view),\n                       self.state2.to_mask(data))"))
W('C01-W-memo-key-ignores-kwargs', 'C01', 'C01.f', (DECO, "    return args, frozenset(kwargs.items())", "    return args"))
W('C01-W-multior-skips-last', 'C01', 'C01.b', (SUBSET, "        for state in self.states[1:]:\n            result |= state.to_mask(data, view=view)", "        for state in self.states[1:-1]:\n            result |= state.to_mask(data, view=view)"))
W('C01-W-getmask-catches-all', 'C01', 'C01.e', (DATA, "        except IncompatibleAttribute:\n            return get_mask_with_key_joins", "        except Exception:\n            return get_mask_with_key_joins"))
W('C01-W-ineq-operands-swapped', 'C01', 'C01.a', (SUBSET, "        return self._operator(left, right)", "        return self._operator(right, left)"))
W('C01-W-opsym-swapped', 'C01', 'C01.a', (SUBSET, "operator.le: '<=', operator.lt: '<',", "operator.le: '<', operator.lt: '<=',"))
W('C01-W-newgroup-no-copy', 'C01', 'C01.c', (ESM, "new_subset_group(subset_state=new_state.copy())", "new_subset_group(subset_state=new_state)"))
W('C01-W-subset-or-uses-and', 'C01', 'C01.a', (SUBSET, "        return _combine([self, other], operator.or_)", "        return _combine([self, other], operator.and_)"))
T('C01-T-and-explicit-class', 'C01', (ESM, "    state = new_state & edit_subset.subset_state\n", "    from glue.core.subset import AndState\n    state = AndState(new_state, edit_subset.subset_state)\n"))
T('C01-T-composite-hoisted', 'C01', (SUBSET, "        return self.op(self.state1.to_mask(data, view),\n                       self.state2.to_mask(data, view))", "        m1 = self.state1.to_mask(data, view)\n        m2 = self.state2.to_mask(data, view)\n        return self.op(m1, m2)"))
T('C01-T-multior-reduce', 'C01', (SUBSET, "        result = self.states[0].to_mask(data, view=view).copy()\n        for state in self.states[1:]:\n            result |= state.to_mask(data, view=view)\n        return result", "        return np.logical_or.reduce([state.to_mask(data, view=view) for state in self.states])"))
T('C01-T-opsym-reordered', 'C01', (SUBSET, "OPSYM = {operator.ge: '>=', operator.gt: '>',", "OPSYM = {operator.gt: '>', operator.ge: '>=',"))

# ------------------------------------------------------------------ C02
W('C02-W-theta-dropped-from-saver', 'C02', 'C02', (ROI, "        return dict(xmin=context.do(self.xmin),\n                    xmax=context.do(self.xmax),\n                    ymin=context.do(self.ymin),\n                    ymax=context.do(self.ymax),\n                    theta=context.do(self.theta))", "        return dict(xmin=context.do(self.xmin),\n                    xmax=context.do(self.xmax),\n                    ymin=context.do(self.ymin),\n                    ymax=context.do(self.ymax))"))
W('C02-W-range-loader-swapped', 'C02', 'C02.c(i)', (STATE, "    return RangeSubsetState(context.object(rec['lo']),\n                            context.object(rec['hi']),", "    return RangeSubsetState(context.object(rec['hi']),\n                            context.object(rec['lo']),"))
W('C02-W-att-renamed-saver-only', 'C02', 'C02.d', (SUBSET, "        return dict(att=context.id(self._att),\n                    vals=context.do(self._categories))", "        return dict(attribute=context.id(self._att),\n                    vals=context.do(self._categories))"))
W('C02-W-category-loader-deleted', 'C02', 'C02.b', (SUBSET, "    @classmethod\n    def __setgluestate__(cls, rec, context):\n        return cls(context.object(rec['att']),\n                   context.object(rec['vals']))\n", ""))
W('C02-W-linksame-required-positional', 'C02', 'C02.e', (LH, "    def __init__(self, cid1=None, cid2=None, **kwargs):\n        if cid1 is None:\n            cid1 = kwargs['cids1'][0]", "    def __init__(self, cid1, cid2, extra, **kwargs):\n        if cid1 is None:\n            cid1 = kwargs['cids1'][0]"))
W('C02-W-yield-after-keyjoins', 'C02', 'C02.f', (STATE, "            cid.parent = result\n    yield result\n\n    def load_cid_tuple(cids):\n        return tuple(context.object(cid) for cid in cids)\n\n    result._key_joins = dict((context.object(k), (load_cid_tuple(v0), load_cid_tuple(v1)))\n                             for k, v0, v1 in rec['_key_joins'])\n    if 'uuid' in rec and rec['uuid'] is not None:\n        result.uuid = rec['uuid']\n    else:\n        result.uuid = str(uuid.uuid4())\n    if 'meta' in rec:\n        result.meta.update(context.object(rec['meta']))\n\n\n@saver(ComponentID)", "            cid.parent = result\n\n    def load_cid_tuple(cids):\n        return tuple(context.object(cid) for cid in cids)\n\n    result._key_joins = dict((context.object(k), (load_cid_tuple(v0), load_cid_tuple(v1)))\n                             for k, v0, v1 in rec['_key_joins'])\n    yield result\n    if 'uuid' in rec and rec['uuid'] is not None:\n        result.uuid = rec['uuid']\n    else:\n        result.uuid = str(uuid.uuid4())\n    if 'meta' in rec:\n        result.meta.update(context.object(rec['meta']))\n\n\n@saver(ComponentID)"))
W('C02-W-dispatch-mro-reversed', 'C02', 'C02.a', (STATE, "            for typ in type(obj).mro():\n                if typ in self.dispatch:", "            for typ in reversed(type(obj).mro()):\n                if typ in self.dispatch:"))
W('C02-W-multior-saver-removed', 'C02', 'C02.b', (STATE, "@saver(MultiOrState)\ndef _save_multi_or_state(state, context):\n    return dict(states=[context.id(s) for s in state.states])\n\n\n@loader(MultiOrState)\ndef _load_multi_or_state(rec, context):\n    return MultiOrState([context.object(s) for s in rec['states']])\n", ""))
W('C02-W-regiondata-coords-unread', 'C02', 'C02.d', (STATE, "    result = RegionData(label=label)\n    if \"coords\" in rec:\n        result.coords = context.object(rec[\"coords\"])\n", "    result = RegionData(label=label)\n"))
W('C02-W-linkaligned-loader-removed', 'C02', 'C02.e', (LH, "    def __gluestate__(self, context):\n        return dict(data1=context.id(self.data1),\n                    data2=context.id(self.data2))\n\n    @classmethod\n    def __setgluestate__(cls, rec, context):\n        return cls(data1=context.object(rec['data1']),\n                   data2=context.object(rec['data2']))\n", ""))
W('C02-W-ellipse-loader-radius-swap', 'C02', 'C02.c(i)', (ROI, "radius_x=rec['radius_x'], radius_y=rec['radius_y']", "radius_x=rec['radius_y'], radius_y=rec['radius_x']"))
W('C02-W-loader-returns-parent', 'C02', 'C02.b', (SUBSET, "        return RoiSubsetState3d(context.object(rec['xatt']),\n                                context.object(rec['yatt']),\n                                context.object(rec['zatt']),\n                                context.object(rec['roi']),\n                                context.object(pretrans))", "        return RoiSubsetStateNd([context.object(rec['xatt']),\n                                context.object(rec['yatt']),\n                                context.object(rec['zatt'])],\n                                context.object(rec['roi']),\n                                context.object(pretrans))"))
T('C02-T-dict-literal', 'C02', (STATE, "    return dict(lo=context.id(state.lo),\n                hi=context.id(state.hi),\n                att=context.id(state.att))", "    return {'lo': context.id(state.lo),\n            'hi': context.id(state.hi),\n            'att': context.id(state.att)}"))
T('C02-T-keyword-ctor-args', 'C02', (STATE, "    return RangeSubsetState(context.object(rec['lo']),\n                            context.object(rec['hi']),\n                            context.object(rec['att']))", "    return RangeSubsetState(att=context.object(rec['att']),\n                            lo=context.object(rec['lo']),\n                            hi=context.object(rec['hi']))"))
T('C02-T-loader-through-local', 'C02', (STATE, "    return InequalitySubsetState(context.object(rec['left']),\n                                 context.object(rec['right']),\n                                 SYMOP[rec['op']])", "    left = context.object(rec['left'])\n    right = context.object(rec['right'])\n    op = SYMOP[rec['op']]\n    result = InequalitySubsetState(left, right, op)\n    return result"))

# ------------------------------------------------------------------ C03
W('C03-W-append-no-sync', 'C03', 'C03.a', (DC, "            self.hub.broadcast(msg)\n\n        self._sync_link_manager()\n\n    def extend", "            self.hub.broadcast(msg)\n\n    def extend"))
W('C03-W-addlink-single-no-update', 'C03', 'C03.a', (LM, "                self._external_links.append(link)\n                if update_external:\n                    self.update_externally_derivable_components()", "                self._external_links.append(link)"))
W('C03-W-inverse-links-dropped', 'C03', 'C03.a', (LM, "discover_links(data, self._links | self._inverse_links)", "discover_links(data, self._links)"))
W('C03-W-no-delete-subscription', 'C03', 'C03.b', (LM, "        self.hub.subscribe(self, DataCollectionDeleteMessage,\n                           handler=self._data_removed)\n", ""))
W('C03-W-ignore-counter-no-finally', 'C03', 'C03.c', (DC, "    def _ignore_link_manager_update(self):\n        self._disable_sync_link_manager += 1\n        try:\n            yield\n        finally:\n            self._disable_sync_link_manager -= 1", "    def _ignore_link_manager_update(self):\n        self._disable_sync_link_manager += 1\n        yield\n        self._disable_sync_link_manager -= 1"))
W('C03-W-removed-handler-mutates-live', 'C03', 'C03.d', (LM, "        for link in self._external_links:\n            if remove_cid in link:\n                remove.append(link)\n        for link in remove:\n            self.remove_link(link)", "        for link in self._external_links:\n            if remove_cid in link:\n                self.remove_link(link)"))
W('C03-W-removelink-update-before-write', 'C03', 'C03.a', (LM, "            self._external_links.remove(link)\n            if update_external:\n                self.update_externally_derivable_components()", "            if update_external:\n                self.update_externally_derivable_components()\n            self._external_links.remove(link)"))
W('C03-W-dc-addlink-update-off', 'C03', 'C03.a', (DC, "        self._link_manager.add_link(links, update_external=not self._disable_sync_link_manager)\n\n    def remove_link", "        self._link_manager.add_link(links, update_external=False)\n\n    def remove_link"))
T('C03-T-early-return-guard', 'C03', (LM, "                self._external_links.append(link)\n                if update_external:\n                    self.update_externally_derivable_components()", "                self._external_links.append(link)\n                if not update_external:\n                    return\n                self.update_externally_derivable_components()"))

# ------------------------------------------------------------------ C05
W('C05-W-update-components-no-clear', 'C05', 'C05.a', (DATA, "        # cached masks depend on the values, and need to be invalidated before\n        # anything reacts to the change\n        clear_all_caches()\n\n        # alert hub of the change\n        if self.hub is not None:\n            msg = NumericalDataChangedMessage(self, components_changed=list(mapping.keys()))\n            self.hub.broadcast(msg)\n", "        # alert hub of the change\n        if self.hub is not None:\n            msg = NumericalDataChangedMessage(self, components_changed=list(mapping.keys()))\n            self.hub.broadcast(msg)\n"))
W('C05-W-update-components-clear-toplevel-only', 'C05', 'C05.a', (DATA, "        # cached masks depend on the values, and need to be invalidated before\n        # anything reacts to the change\n        clear_all_caches()\n\n        # alert hub of the change\n        if self.hub is not None:\n            msg = NumericalDataChangedMessage(self, components_changed=list(mapping.keys()))\n            self.hub.broadcast(msg)\n", "        from glue.core.decorators import clear_cache\n        for subset in self.subsets:\n            clear_cache(subset.subset_state.to_mask)\n\n        # alert hub of the change\n        if self.hub is not None:\n            msg = NumericalDataChangedMessage(self, components_changed=list(mapping.keys()))\n            self.hub.broadcast(msg)\n"))
W('C05-W-memoize-range-state', 'C05', 'C05.b', (SUBSET, "    @contract(data='isinstance(Data)', view='array_view')\n    def to_mask(self, data, view=None):\n        x = data[self.att, view]\n        result = np.zeros_like(x, dtype=bool)", "    @memoize\n    @contract(data='isinstance(Data)', view='array_view')\n    def to_mask(self, data, view=None):\n        x = data[self.att, view]\n        result = np.zeros_like(x, dtype=bool)"),
  (SUBSET, "    def __setattr__(self, name, value):\n        # Masks are cached per subset state instance (see memoize), so if the\n        # definition of a subset state is modified after it has been created\n        # we need to invalidate the cached masks.\n        if name in self.__dict__:\n            clear_all_caches()\n        object.__setattr__(self, name, value)\n", ""))
W('C05-W-setattr-hook-removed', 'C05', 'C05.b', (SUBSET, "        if name in self.__dict__:\n            clear_all_caches()\n        object.__setattr__(self, name, value)", "        object.__setattr__(self, name, value)"))
W('C05-W-moveto-no-clear', 'C05', 'C05.b', (SUBSET, "        self.state1.move_to(*args)\n        clear_all_caches()\n", "        self.state1.move_to(*args)\n"))
W('C05-W-floodfill-hash-drops-threshold', 'C05', 'C05.c', (SUBSET, "        return self.data, self.att, self.start_coords, self.threshold, self.cids", "        return self.data, self.att, self.start_coords, self.cids"))
W('C05-W-hist-key-drops-nbin', 'C05', 'C05.c', (('glue/viewers/histogram/state.py'), "                            self.viewer_state.hist_n_bin,\n                            self.viewer_state.random_subset)", "                            self.viewer_state.random_subset)"))
W('C05-W-hist-key-drops-random-subset', 'C05', 'C05.c', (('glue/viewers/histogram/state.py'), "                            self.viewer_state.hist_n_bin,\n                            self.viewer_state.random_subset)", "                            self.viewer_state.hist_n_bin)"))
W('C05-W-addcomponent-no-clear', 'C05', 'C05.a', (DATA, "        if is_present:\n            clear_all_caches()\n", ""))
W('C05-W-profile-callback-dropped', 'C05', 'C05.c', ('glue/viewers/profile/state.py', "            self.viewer_state.add_callback('function', self.reset_cache, priority=100000)\n", ""))
W('C05-W-clear-after-broadcast', 'C05', 'C05.a', (DATA, "        # cached masks depend on the values, and need to be invalidated before\n        # anything reacts to the change\n        clear_all_caches()\n\n        # alert hub of the change\n        if self.hub is not None:\n            msg = NumericalDataChangedMessage(self, components_changed=list(mapping.keys()))\n            self.hub.broadcast(msg)\n", "        # alert hub of the change\n        if self.hub is not None:\n            msg = NumericalDataChangedMessage(self, components_changed=list(mapping.keys()))\n            self.hub.broadcast(msg)\n\n        clear_all_caches()\n"))
T('C05-T-clear-in-hub-branch-and-else', 'C05', (DATA, "        # cached masks depend on the values, and need to be invalidated before\n        # anything reacts to the change\n        clear_all_caches()\n\n        # alert hub of the change\n        if self.hub is not None:\n            msg = NumericalDataChangedMessage(self, components_changed=list(mapping.keys()))\n            self.hub.broadcast(msg)\n", "        if self.hub is not None:\n            clear_all_caches()\n            msg = NumericalDataChangedMessage(self, components_changed=list(mapping.keys()))\n            self.hub.broadcast(msg)\n        else:\n            clear_all_caches()\n"))

# ------------------------------------------------------------------ C07
W('C07-W-pause-before-ignore', 'C07', 'C07.a', (HUB, "        if self._ignore.get(type(message), 0) > 0:\n            return\n        elif self._paused:\n            self._queue.append(message)", "        if self._paused:\n            self._queue.append(message)\n        elif self._ignore.get(type(message), 0) > 0:\n            return"))
W('C07-W-priority-ascending', 'C07', 'C07.d', (HUB, "key=lambda x: x[2], reverse=True)", "key=lambda x: x[2], reverse=False)"))
W('C07-W-min-specificity', 'C07', 'C07.d', (HUB, "candidate = max(messages, key=_mro_count)", "candidate = min(messages, key=_mro_count)"))
W('C07-W-filter-skipped', 'C07', 'C07.d', (HUB, "            if test(message):\n                prioritized_handlers.append((subscriber, handler, priority))", "            prioritized_handlers.append((subscriber, handler, priority))"))
W('C07-W-delay-no-finally', 'C07', 'C07.b', (HUB, "        self._paused += 1\n        try:\n            yield\n        finally:\n            self._paused -= 1\n            if self._paused == 0:\n                # TODO: could de-duplicate messages here\n                queue, self._queue = self._queue, []\n                for message in queue:\n                    self.broadcast(message)", "        self._paused += 1\n        yield\n        self._paused -= 1\n        if self._paused == 0:\n            queue, self._queue = self._queue, []\n            for message in queue:\n                self.broadcast(message)"))
W('C07-W-live-table', 'C07', 'C07.d', (HUB, "for subscriber, subscriptions in list(self._subscriptions.items()):", "for subscriber, subscriptions in self._subscriptions.items():"))
W('C07-W-ignore-other-key', 'C07', 'C07.c', (HUB, "        finally:\n            self._ignore[ignore_type] -= 1", "        finally:\n            self._ignore[type(ignore_type)] -= 1"))
W('C07-W-delay-boolean', 'C07', 'C07.b', (HUB, "        self._paused += 1\n        try:\n            yield\n        finally:\n            self._paused -= 1\n            if self._paused == 0:", "        self._paused = True\n        try:\n            yield\n        finally:\n            self._paused = False\n            if not self._paused:"))
W('C07-W-flush-live-queue', 'C07', 'C07.b', (HUB, "                queue, self._queue = self._queue, []\n                for message in queue:\n                    self.broadcast(message)", "                for message in self._queue:\n                    self.broadcast(message)\n                self._queue = []"))
W('C07-W-flush-every-exit', 'C07', 'C07.b', (HUB, "            self._paused -= 1\n            if self._paused == 0:\n                # TODO: could de-duplicate messages here\n                queue, self._queue = self._queue, []\n                for message in queue:\n                    self.broadcast(message)", "            self._paused -= 1\n            queue, self._queue = self._queue, []\n            for message in queue:\n                self.broadcast(message)"))
W('C07-W-paused-also-delivers', 'C07', 'C07.a', (HUB, "        elif self._paused:\n            self._queue.append(message)\n        else:\n            logging", "        if self._paused:\n            self._queue.append(message)\n        if True:\n            logging"))
T('C07-T-negative-priority-key', 'C07', (HUB, "key=lambda x: x[2], reverse=True)", "key=lambda x: -x[2])"))
T('C07-T-broadcast-early-returns', 'C07', (HUB, "        elif self._paused:\n            self._queue.append(message)\n        else:\n            logging.getLogger(__name__).info(\"Broadcasting %s\", message)\n            for subscriber, handler in self._find_handlers(message):\n                handler(message)", "        if self._paused:\n            self._queue.append(message)\n            return\n        logging.getLogger(__name__).info(\"Broadcasting %s\", message)\n        for subscriber, handler in self._find_handlers(message):\n            handler(message)"))

# ------------------------------------------------------------------ C12
PATCHES = 'glue/core/state_path_patches.txt'
W('C12-W-saver-v6-without-loader', 'C12', 'C12.a', (STATE, "@loader(Data, version=5)\ndef _load_data_5(rec, context):", "@saver(Data, version=6)\ndef _save_data_6(data, context):\n    return _save_data_5(data, context)\n\n\n@loader(Data, version=5)\ndef _load_data_5(rec, context):"))
W('C12-W-loader-v1-reads-style', 'C12', 'C12.c', (STATE, "    label = rec['label']\n    result = Data(label=label)\n", "    label = rec['label']\n    result = Data(label=label)\n    result.style = context.object(rec['style'])\n"))
W('C12-W-dispatch-pinned-v1', 'C12', 'C12.b', (STATE, "                if typ in self.dispatch:\n                    return self.dispatch[typ]", "                if typ in self.dispatch:\n                    return self.dispatch.get_version(typ, 1), 1"))
W('C12-W-rename-captures-live-class', 'C12', 'C12.d', (PATCHES, "glue.core.component_link.identity -> glue.core.link_helpers.identity\n", "glue.core.component_link.identity -> glue.core.link_helpers.identity\nglue.core.subset.RangeSubsetState -> glue.core.subset.MultiRangeSubsetState\n"))
W('C12-W-rename-cycle', 'C12', 'C12.d', (PATCHES, "glue.core.component_link.identity -> glue.core.link_helpers.identity\n", "glue.core.component_link.identity -> glue.core.link_helpers.identity\nglue.old.A -> glue.old.B\nglue.old.B -> glue.old.A\n"))
W('C12-W-rename-dangling', 'C12', 'C12.d', (PATCHES, "glue.core.component_link.identity -> glue.core.link_helpers.identity\n", "glue.core.component_link.identity -> glue.core.link_helpers.identity_function\n"))
W('C12-W-reader-default-0', 'C12', 'C12.b', (STATE, "        version = rec.get('_protocol', 1)", "        version = rec.get('_protocol', 0)"))
W('C12-W-overwrite-guard-removed', 'C12', 'C12.a', (STATE, "        if version in self._data[item]:\n            raise KeyError(\"Cannot overwrite version %i of %s\" %\n                           (version, item))\n", ""))
W('C12-W-helper-edit-breaks-v2', 'C12', 'C12.c', (STATE, "    result = _save_data(data, context)\n    result['style'] = context.do(data.style)\n    return result", "    result = _save_data(data, context)\n    result['visual'] = context.do(data.style)\n    return result"))
W('C12-W-stamp-threshold', 'C12', 'C12.b', (STATE, "        if version > 1:\n            result['_protocol'] = version", "        if version > 2:\n            result['_protocol'] = version"))
T('C12-T-rename-rows-reordered', 'C12', (PATCHES, "glue.clients.ds9norm.DS9Normalize -> glue.viewers.image.ds9norm.DS9Normalize\nglue.clients.layer_artist.HistogramLayerArtist -> glue.viewers.histogram.qt.layer_artist.QThreadedHistogramLayerArtist\n", "glue.clients.layer_artist.HistogramLayerArtist -> glue.viewers.histogram.qt.layer_artist.QThreadedHistogramLayerArtist\nglue.clients.ds9norm.DS9Normalize -> glue.viewers.image.ds9norm.DS9Normalize\n"))
T('C12-T-rename-external-row', 'C12', (PATCHES, "glue.core.component_link.identity -> glue.core.link_helpers.identity\n", "glue.core.component_link.identity -> glue.core.link_helpers.identity\nmy_plugin.old.Thing -> my_plugin.new.Thing\n"))

# ------------------------------------------------------------------ C13
W('C13-W-do-keeps-redo', 'C13', 'C13.a', (CMD, "        self._command_stack = self._command_stack[-MAX_UNDO:]\n        self._undo_stack = []\n", "        self._command_stack = self._command_stack[-MAX_UNDO:]\n"))
W('C13-W-undo-no-push', 'C13', 'C13.a', (CMD, "        self._undo_stack.append(c)\n        c.undo(self._session)", "        c.undo(self._session)"))
W('C13-W-adddata-undo-appends', 'C13', 'C13.b', (CMD, "    def undo(self, session):\n        session.data_collection.remove(self.data)\n\n\nclass RemoveData", "    def undo(self, session):\n        session.data_collection.append(self.data)\n\n\nclass RemoveData"))
W('C13-W-snapshot-after-apply', 'C13', 'C13.c', (CMD, "        self.old_states = {}\n        for data in self.data_collection:\n            for subset in data.subsets:\n                self.old_states[subset] = subset.subset_state\n        self.old_groups = self.data_collection.subset_groups\n        self.old_edit_subset = session.edit_subset_mode.edit_subset\n\n        self.apply_func(self.roi)", "        self.apply_func(self.roi)\n        self.old_states = {}\n        for data in self.data_collection:\n            for subset in data.subsets:\n                self.old_states[subset] = subset.subset_state\n        self.old_groups = self.data_collection.subset_groups\n        self.old_edit_subset = session.edit_subset_mode.edit_subset\n"))
W('C13-W-no-truncation', 'C13', 'C13.a', (CMD, "        self._command_stack = self._command_stack[-MAX_UNDO:]\n", ""))
W('C13-W-undo-keeps-edit-subset', 'C13', 'C13.d', (CMD, "            k.subset_state = v\n\n        session.edit_subset_mode.edit_subset = self.old_edit_subset\n\n\nclass LinkData", "            k.subset_state = v\n\n\nclass LinkData"))
W('C13-W-redo-calls-undo', 'C13', 'C13.a', (CMD, "        result = c.do(self._session)\n        self._command_stack.append(c)", "        result = c.undo(self._session)\n        self._command_stack.append(c)"))
T('C13-T-pop-inline', 'C13', (CMD, "        self._undo_stack = []\n        self.notify('do')", "        self._undo_stack.clear()\n        self.notify('do')"))

# ------------------------------------------------------------------ C17
W('C17-W-remove-no-componentschanged', 'C17', 'C17.a', (DATA, "                msg = DataRemoveComponentMessage(self, component_id)\n                self.hub.broadcast(msg)\n                msg = ComponentsChangedMessage(self)\n                self.hub.broadcast(msg)", "                msg = DataRemoveComponentMessage(self, component_id)\n                self.hub.broadcast(msg)"))
W('C17-W-remove-broadcast-before-pop', 'C17', 'C17.b', (DATA, "        if component_id in self._components:\n            self._components.pop(component_id)\n            self._removed_derived_that_depend_on(component_id)\n            if self.hub:\n                msg = DataRemoveComponentMessage(self, component_id)\n                self.hub.broadcast(msg)", "        if self.hub:\n            msg = DataRemoveComponentMessage(self, component_id)\n            self.hub.broadcast(msg)\n        if component_id in self._components:\n            self._components.pop(component_id)\n            self._removed_derived_that_depend_on(component_id)\n            if self.hub:"))
W('C17-W-reorder-broadcast-before-return', 'C17', 'C17.b', (DATA, "        existing = self.components\n        for idx in range(len(component_ids)):", "        if self.hub:\n            msg = DataReorderComponentMessage(self, list(self._components))\n            self.hub.broadcast(msg)\n\n        existing = self.components\n        for idx in range(len(component_ids)):"))
W('C17-W-extra-hub-guard', 'C17', 'C17.a', (DATA, "        if self.hub and not is_present:\n            msg = DataAddComponentMessage(self, component_id)", "        if self.hub and not is_present and len(self._components) > 3:\n            msg = DataAddComponentMessage(self, component_id)"))
W('C17-W-store-before-shape-test', 'C17', 'C17.d', (DATA, "            data = np.asarray(data)\n            if data.shape != self.shape:\n                raise ValueError(\"Cannot change shape of data\")\n\n            comp._data = data", "            data = np.asarray(data)\n            comp._data = data\n            if data.shape != self.shape:\n                raise ValueError(\"Cannot change shape of data\")\n"))
W('C17-W-updateid-skips-pixel', 'C17', 'C17.c', (DATA, "        try:\n            index = self._pixel_component_ids.index(old)\n            self._pixel_component_ids[index] = new\n            changed = True\n        except ValueError:\n            pass\n", ""))
W('C17-W-updateid-no-derived-links', 'C17', 'C17.c', (DATA, "        if changed:\n            for link in self.derived_links:\n                link.replace_ids(old, new)\n", ""))
W('C17-W-addsubset-no-message', 'C17', 'C17.a', (DATA, "        if self.hub is not None:\n            msg = SubsetCreateMessage(subset)\n            self.hub.broadcast(msg)\n", ""))
W('C17-W-label-no-broadcast', 'C17', 'C17.a', (DATA, "            self._label = value\n            self.broadcast(attribute='label')", "            self._label = value"))
W('C17-W-dc-remove-no-message', 'C17', 'C17.a', (DC, "        Registry().unregister(data, Data)\n        if self.hub:\n            msg = DataCollectionDeleteMessage(self, data)\n            self.hub.broadcast(msg)", "        Registry().unregister(data, Data)"))
T('C17-T-hub-guard-inverted', 'C17', (DATA, "        if self.hub:\n            msg = DataReorderComponentMessage(self, list(self._components))\n            self.hub.broadcast(msg)", "        if not self.hub:\n            return\n        msg = DataReorderComponentMessage(self, list(self._components))\n        self.hub.broadcast(msg)"))

# ------------------------------------------------------------------ C04
DD = 'glue/core/data_derived.py'
W('C04-W-element-loses-view', 'C04', 'C04.a', (SUBSET, "            if view is not None:\n                result = result[view]\n            return result\n        else:\n            raise IncompatibleAttribute()", "            return result\n        else:\n            raise IncompatibleAttribute()"))
W('C04-W-getdata-ignores-view', 'C04', 'C04.a', (DATA, "        if view is not None:\n            result = comp[view]\n        else:\n            result = comp.data\n\n        return result", "        if view is not None:\n            result = comp.data\n        else:\n            result = comp.data\n\n        return result"))
W('C04-W-indexed-getmask-untranslated', 'C04', 'C04.b', (DD, "        original_view = self._to_original_view(view)\n        return self._original_data.get_mask(subset_state, view=original_view)", "        return self._original_data.get_mask(subset_state, view=view)"))
W('C04-W-indexed-statistic-untranslated', 'C04', 'C04.b', (DD, "        cid = self._translate_cid(cid)\n        kwargs['view'] = self._to_original_view(kwargs.get('view'))", "        kwargs['view'] = self._to_original_view(kwargs.get('view'))"))
W('C04-W-indexed-histogram-passthrough', 'C04', 'C04.b', (DD, "        return self._original_data.compute_histogram(cids, weights=weights, **kwargs)", "        return self._original_data.compute_histogram(cids, **kwargs)"), (DD, "        if weights is not None:\n            weights = self._translate_cid(weights)\n", "        kwargs['weights'] = weights\n"))
W('C04-W-parsed-state-ignores-view', 'C04', 'C04.a', ('glue/core/parse.py', "        result = self._parsed.evaluate(data)\n        if view is not None:\n            result = result[view]\n        return result", "        result = self._parsed.evaluate(data)\n        return result"))
W('C04-W-multirange-categorical-ignores-view', 'C04', 'C04.a', (SUBSET, "        if view is not None:\n            labels = labels[view]\n            values = values[view]\n", ""))
W('C04-W-basecartesian-pixel-ignores-view', 'C04', 'C04.a', (DATA, "            else:\n                return np.broadcast_to(pix, self.shape)[view]", "            else:\n                return np.broadcast_to(pix, self.shape)"))
T('C04-T-conditional-expression', 'C04', (DATA, "        if view is not None:\n            result = comp[view]\n        else:\n            result = comp.data\n\n        return result", "        return comp.data if view is None else comp[view]"))

# ------------------------------------------------------------------ C06
SG = 'glue/core/subset_group.py'
W('C06-W-adddata-no-append', 'C06', 'C06', (SG, "        s = GroupedSubset(data, self)\n        data.add_subset(s)\n        self.subsets.append(s)", "        s = GroupedSubset(data, self)\n        data.add_subset(s)"))
W('C06-W-adddata-no-attach', 'C06', 'C06.a', (SG, "        s = GroupedSubset(data, self)\n        data.add_subset(s)\n        self.subsets.append(s)", "        s = GroupedSubset(data, self)\n        self.subsets.append(s)"))
W('C06-W-register-outside-delay', 'C06', 'C06.b', (DC, "            self._subset_groups.append(result)\n            result.register(self)\n        return result", "            self._subset_groups.append(result)\n        result.register(self)\n        return result"))
W('C06-W-no-unregister', 'C06', 'C06.b', (DC, "            subset_grp.unregister(self.hub)\n", ""))
W('C06-W-label-pointer-deleted', 'C06', 'C06.c', (SG, "    label = Pointer('group.label')\n", ""))
W('C06-W-loader-v4-no-register', 'C06', 'C06.b', (STATE, "    dc._subset_groups = list(map(context.object, rec['groups']))\n    for grp in dc.subset_groups:\n        grp.register_to_hub(dc.hub)\n", "    dc._subset_groups = list(map(context.object, rec['groups']))\n"))
W('C06-W-removedata-live-iteration', 'C06', 'C06.d', (SG, "        for s in list(self.subsets):\n            if s.data is data:", "        for s in self.subsets:\n            if s.data is data:"))
W('C06-W-removedata-no-delete', 'C06', 'C06.a', (SG, "                self.subsets.remove(s)\n                s.delete()", "                self.subsets.remove(s)"))
W('C06-W-delete-handler-dropped', 'C06', 'C06.b', (SG, "        hub.subscribe(self, DataCollectionDeleteMessage,\n                      lambda x: self._remove_data(x.data))\n", ""))
T('C06-T-style-property-kept', 'C06', (SG, "        for d, s in zip(data, self.subsets):\n            d.add_subset(s)", "        for dd, ss in zip(data, self.subsets):\n            dd.add_subset(ss)"))

# ------------------------------------------------------------------ C08
W('C08-W-rect-moveto-misses-ymax', 'C08', 'C08.a', (ROI, "        self.ymin += dy\n        self.ymax += dy\n", "        self.ymin += dy\n"))
W('C08-W-rect-moveto-crossed', 'C08', 'C08.a', (ROI, "        self.ymin += dy\n        self.ymax += dy\n", "        self.ymin += dx\n        self.ymax += dy\n"))
W('C08-W-ellipse-saver-drops-theta', 'C08', 'C08.b', (ROI, "                    radius_y=context.do(self.radius_y),\n                    theta=context.do(self.theta))", "                    radius_y=context.do(self.radius_y))"))
W('C08-W-contains3d-store-after-loop', 'C08', 'C08.c', (ROI, "            screen_x, screen_y = screen_h[:2] / screen_h[3]\n\n            mask[slices] = self.roi_2d.contains(screen_x, screen_y)", "            screen_x, screen_y = screen_h[:2] / screen_h[3]\n\n        mask[slices] = self.roi_2d.contains(screen_x, screen_y)"))
W('C08-W-circle-moveto-swapped', 'C08', 'C08.a', (ROI, "    def move_to(self, x, y):\n        self.xc = x\n        self.yc = y\n\n    def __gluestate__(self, context):\n        return dict(xc=context.do(self.xc),\n                    yc=context.do(self.yc),\n                    radius=context.do(self.radius))", "    def move_to(self, x, y):\n        self.xc = y\n        self.yc = x\n\n    def __gluestate__(self, context):\n        return dict(xc=context.do(self.xc),\n                    yc=context.do(self.yc),\n                    radius=context.do(self.radius))"))
W('C08-W-annulus-loader-swaps-radii', 'C08', 'C08.b', (ROI, "                   inner_radius=rec['inner_radius'],\n                   outer_radius=rec['outer_radius'])", "                   inner_radius=rec['outer_radius'],\n                   outer_radius=rec['inner_radius'])"))
W('C08-W-contains3d-z-unsliced', 'C08', 'C08.c', (ROI, "x_sub, y_sub, z_sub = x[slices], y[slices], z[slices]", "x_sub, y_sub, z_sub = x[slices], y[slices], z"))
T('C08-T-inline-deltas', 'C08', (ROI, "        dx = x - cx\n        dy = y - cy\n        self.xmin += dx\n        self.xmax += dx\n        self.ymin += dy\n        self.ymax += dy", "        self.xmin += x - cx\n        self.xmax += x - cx\n        self.ymin += y - cy\n        self.ymax += y - cy"))

# ------------------------------------------------------------------ C09
W('C09-W-yrange-from-x-limits', 'C09', 'C09.b', (SUBSET, "            range2 = YRangeROI(roi.ymin, roi.ymax)", "            range2 = YRangeROI(roi.xmin, roi.xmax)"))
W('C09-W-polygon-unswapped', 'C09', 'C09.b', (SUBSET, "                    y, x = roi.to_polygon()", "                    x, y = roi.to_polygon()"))
W('C09-W-range-branch-mixed', 'C09', 'C09.b', (SUBSET, "        if roi.ori == 'x':\n            att = x_att\n            categories = x_categories", "        if roi.ori == 'x':\n            att = x_att\n            categories = y_categories"))
W('C09-W-categorical-branch-deleted', 'C09', 'C09.a', (SUBSET, "        elif isinstance(roi, CategoricalROI):\n\n            # The selection is categorical itself. We assume this is along the x axis\n\n            return CategoricalROISubsetState(roi=roi, att=x_att)\n", ""))
W('C09-W-2d-atts-swapped', 'C09', 'C09.b', (SUBSET, "return CategoricalROISubsetState2D(selection, x_att, y_att)", "return CategoricalROISubsetState2D(selection, y_att, x_att)"))
W('C09-W-recursive-call-crossed', 'C09', 'C09.b', (SUBSET, "subset2 = roi_to_subset_state(range2, y_att=y_att, y_categories=y_categories)", "subset2 = roi_to_subset_state(range2, y_att=y_att, y_categories=x_categories)"))
W('C09-W-numeric-atts-swapped', 'C09', 'C09.b', (SUBSET, "        subset_state.xatt = x_att\n        subset_state.yatt = y_att", "        subset_state.xatt = y_att\n        subset_state.yatt = x_att"))
W('C09-W-rect-or-instead-of-and', 'C09', 'C09.b', (SUBSET, "            return AndState(subset1, subset2)", "            return OrState(subset1, subset2)"))
T('C09-T-range-branch-inverted', 'C09', (SUBSET, "        if roi.ori == 'x':\n            att = x_att\n            categories = x_categories\n        else:\n            att = y_att\n            categories = y_categories", "        if roi.ori != 'x':\n            att = y_att\n            categories = y_categories\n        else:\n            att = x_att\n            categories = x_categories"))

# ------------------------------------------------------------------ C10
ARR = 'glue/utils/array.py'
W('C10-W-nan-maximum-is-nanmin', 'C10', 'C10.a', (ARR, "                 'maximum': np.nanmax,", "                 'maximum': np.nanmin,"))
W('C10-W-chunk-drops-positive', 'C10', 'C10.b', (DATA, "axis=axis, finite=finite, positive=positive,\n                                                    percentile=percentile, view=chunk_view)", "axis=axis, finite=finite,\n                                                    percentile=percentile, view=chunk_view)"))
W('C10-W-chunk-store-index-0', 'C10', 'C10.c', (DATA, "                    result[chunk_view[axis_index]] = values", "                    result[chunk_view[0]] = values"))
W('C10-W-array-call-drops-finite', 'C10', 'C10.b', (DATA, "        result = compute_statistic(statistic, data, mask=mask, axis=axis, finite=finite,\n                                   positive=positive, percentile=percentile)", "        result = compute_statistic(statistic, data, mask=mask, axis=axis,\n                                   positive=positive, percentile=percentile)"))
W('C10-W-positive-filter-nonstrict', 'C10', 'C10.a', (ARR, "        if positive:\n            keep &= data > 0", "        if positive:\n            keep &= data >= 0"))
W('C10-W-plain-median-is-mean', 'C10', 'C10.a', (ARR, "                   'median': np.median,", "                   'median': np.mean,"))
W('C10-W-chunk-passes-finite-true', 'C10', 'C10.b', (DATA, "axis=axis, finite=finite, positive=positive,\n                                                    percentile=percentile, view=chunk_view)", "axis=axis, finite=True, positive=positive,\n                                                    percentile=percentile, view=chunk_view)"))
T('C10-T-tables-via-dict-call', 'C10', (ARR, "                   'sum': np.sum,\n                   'percentile': np.percentile}", "                   'percentile': np.percentile,\n                   'sum': np.sum}"))

# ------------------------------------------------------------------ C11
JOINS = 'glue/core/joins.py'
W('C11-W-reverse-registration-deleted', 'C11', 'C11.a', (DATA, "        self._key_joins[other] = (cid, cid_other)\n        other._key_joins[self] = (cid_other, cid)", "        self._key_joins[other] = (cid, cid_other)"))
W('C11-W-reverse-unswapped', 'C11', 'C11.a', (DATA, "        other._key_joins[self] = (cid_other, cid)", "        other._key_joins[self] = (cid, cid_other)"))
W('C11-W-left-read-from-other', 'C11', 'C11.b', (JOINS, "            key_left = data.get_data(cid1[0], view=view)\n            key_right = other.get_data(cid2[0], view=mask_right)\n            mask = np.isin(key_left.ravel(), key_right.ravel())", "            key_left = other.get_data(cid1[0], view=view)\n            key_right = other.get_data(cid2[0], view=mask_right)\n            mask = np.isin(key_left.ravel(), key_right.ravel())"))
W('C11-W-isin-swapped', 'C11', 'C11.b', (JOINS, "            mask = np.isin(key_left_all, key_right_all)", "            mask = np.isin(key_right_all, key_left_all)"))
W('C11-W-guard-no-finally', 'C11', 'C11.c', (JOINS, "        try:\n            data._recursing = True\n            mask_right = other.get_mask(subset_state)\n        except IncompatibleAttribute:\n            continue\n        finally:\n            data._recursing = False", "        try:\n            data._recursing = True\n            mask_right = other.get_mask(subset_state)\n            data._recursing = False\n        except IncompatibleAttribute:\n            data._recursing = False\n            continue"))
W('C11-W-right-keys-unmasked', 'C11', 'C11.b', (JOINS, "                key_right = other.get_data(cid2_i, view=mask_right).ravel()\n                mask |= np.isin(key_left, key_right)", "                key_right = other.get_data(cid2_i, view=view).ravel()\n                mask |= np.isin(key_left, key_right)"))
W('C11-W-removelink-one-side', 'C11', 'C11.a', (LM, "                link.data2._key_joins.pop(data_to_remove_from_data2)\n", ""))
T('C11-T-renamed-locals', 'C11', (JOINS, "            key_left = data.get_data(cid1[0], view=view)\n            key_right = other.get_data(cid2[0], view=mask_right)\n            mask = np.isin(key_left.ravel(), key_right.ravel())\n\n            return mask.reshape(key_left.shape)", "            mine = data.get_data(cid1[0], view=view)\n            theirs = other.get_data(cid2[0], view=mask_right)\n            mask = np.isin(mine.ravel(), theirs.ravel())\n\n            return mask.reshape(mine.shape)"))

# ------------------------------------------------------------------ C14
CL = 'glue/core/component_link.py'
W('C14-W-rsub-unreflected', 'C14', 'C14.a', (CID, "    def __rsub__(self, other):\n        return BinaryComponentLink(other, self, operator.sub)", "    def __rsub__(self, other):\n        return BinaryComponentLink(self, other, operator.sub)"))
W('C14-W-mul-passes-add', 'C14', 'C14.a', (CID, "    def __mul__(self, other):\n        return BinaryComponentLink(self, other, operator.mul)", "    def __mul__(self, other):\n        return BinaryComponentLink(self, other, operator.add)"))
W('C14-W-compute-swapped', 'C14', 'C14.a', (CL, "        result = self._op(left, right)", "        result = self._op(right, left)"))
W('C14-W-sweep-pops-instead-of-recursing', 'C14', 'C14.b', (DATA, "        for cid in remove:\n            self.remove_component(cid)\n\n    @contract(other='isinstance(Data)',", "        for cid in remove:\n            self._components.pop(cid)\n\n    @contract(other='isinstance(Data)',"))
W('C14-W-link-rpow-unreflected', 'C14', 'C14.a', (CL, "    def __rpow__(self, other):\n        return BinaryComponentLink(other, self, operator.pow)", "    def __rpow__(self, other):\n        return BinaryComponentLink(self, other, operator.pow)"))
W('C14-W-replace-ids-skips-right', 'C14', 'C14.a', (CL, "        if self._right is old:\n            self._right = new\n        elif isinstance(self._right, ComponentLink):\n            self._right.replace_ids(old, new)", "        if isinstance(self._right, ComponentLink):\n            self._right.replace_ids(old, new)"))
W('C14-W-compute-right-no-view', 'C14', 'C14.a', (CL, "            right = data[self._right, view]", "            right = data[self._right]"))
W('C14-W-sweep-not-called', 'C14', 'C14.b', (DATA, "            self._components.pop(component_id)\n            self._removed_derived_that_depend_on(component_id)", "            self._components.pop(component_id)"))
T('C14-T-compute-inline', 'C14', (CL, "        result = self._op(left, right)\n\n        if original_shape is None:\n            return result", "        op = self._op\n        result = op(left, right)\n\n        if original_shape is None:\n            return result"))

# ------------------------------------------------------------------ C15
COORD = 'glue/core/coordinates.py'
W('C15-W-w2p-uses-forward', 'C15', 'C15.a', (COORD, "        pixel = np.matmul(world, self._matrix_inv.T)", "        pixel = np.matmul(world, self._matrix.T)"))
W('C15-W-inverse-is-transpose', 'C15', 'C15.a', (COORD, "        self._matrix_inv = np.linalg.inv(matrix)", "        self._matrix_inv = matrix.T"))
W('C15-W-w2p-link-default-flag', 'C15', 'C15.b', (DATA, "                                           self.coords, i, pixel2world=False)", "                                           self.coords, i)"))
W('C15-W-using-same-helper', 'C15', 'C15.c', (CL, "            return world2pixel_single_axis(self.coords, *args2[::-1], pixel_axis=self.ndim - 1 - self.index)", "            return pixel2world_single_axis(self.coords, *args2[::-1], world_axis=self.ndim - 1 - self.index)"))
W('C15-W-link-wrong-index', 'C15', 'C15.b', (DATA, "            link = CoordinateComponentLink(self._pixel_component_ids,\n                                           self._world_component_ids[i],\n                                           self.coords, i)", "            link = CoordinateComponentLink(self._pixel_component_ids,\n                                           self._world_component_ids[i],\n                                           self.coords, 0)"))
W('C15-W-identity-asymmetric', 'C15', 'C15.a', (COORD, "    def world_to_pixel_values(self, *world):\n        if self.world_n_dim == 1:\n            return world[0]\n        else:\n            return world\n\n    @property\n    def axis_correlation_matrix", "    def world_to_pixel_values(self, *world):\n        return world[0]\n\n    @property\n    def axis_correlation_matrix"))
T('C15-T-renamed-local', 'C15', (COORD, "        self._matrix = matrix\n        self._matrix_inv = np.linalg.inv(matrix)", "        self._matrix = matrix\n        self._matrix_inv = np.linalg.inv(self._matrix)"))

# ------------------------------------------------------------------ C16
FRB = 'glue/core/fixed_resolution_buffer.py'
IMG = 'glue/viewers/image/state.py'
W('C16-W-key-drops-broadcast', 'C16', 'C16.a', (FRB, "            current_array_hash = (data, bounds, target_data, subset_state, broadcast)", "            current_array_hash = (data, bounds, target_data, subset_state)"))
W('C16-W-no-eviction', 'C16', 'C16.b', (FRB, "        if cache_id in PIXEL_CACHE:\n            if PIXEL_CACHE[cache_id]['hash'] != current_pixel_hash:\n                PIXEL_CACHE.pop(cache_id)\n", ""))
W('C16-W-invalid-only-uncached', 'C16', 'C16.c', (FRB, "                                               'bounds': bounds_for_cache(bounds, dimensions)}\n\n        invalid_all |= invalid\n", "                                               'bounds': bounds_for_cache(bounds, dimensions)}\n\n            invalid_all |= invalid\n"))
W('C16-W-subset-other-cache-id', 'C16', 'C16.d', (IMG, "subset_state=self.layer.subset_state, broadcast=False, cache_id=self.uuid)", "subset_state=self.layer.subset_state, broadcast=False, cache_id=self.layer.uuid)"))
W('C16-W-key-drops-target-cid', 'C16', 'C16.a', (FRB, "            current_array_hash = (data, bounds, target_data, target_cid.uuid, broadcast)", "            current_array_hash = (data, bounds, target_data, None, broadcast)"))
W('C16-W-pixel-hash-drops-target', 'C16', 'C16.b', (FRB, "        current_pixel_hash = (data, target_data)", "        current_pixel_hash = (data,)"))
W('C16-W-entry-without-invalid', 'C16', 'C16.b', (FRB, "                                               'dimensions': dimensions,\n                                               'invalid': invalid,", "                                               'dimensions': dimensions,"))
W('C16-W-hit-compares-cache-id-only', 'C16', 'C16.a', (FRB, "            if ARRAY_CACHE[cache_id]['hash'] == current_array_hash:\n                return ARRAY_CACHE[cache_id]['array']", "            if ARRAY_CACHE[cache_id]['hash'][0] is data:\n                return ARRAY_CACHE[cache_id]['array']"))
T('C16-T-key-through-local', 'C16', (FRB, "            current_array_hash = (data, bounds, target_data, subset_state, broadcast)", "            state_for_key = subset_state\n            current_array_hash = (data, bounds, target_data, state_for_key, broadcast)"))

# ------------------------------------------------------------------ C18
VIEWER = 'glue/viewers/common/viewer.py'
DCH = 'glue/core/data_combo_helper.py'
W('C18-W-viewer-no-delete-subscription', 'C18', 'C18.a', (VIEWER, "        hub.subscribe(self, msg.DataCollectionDeleteMessage,\n                      handler=self._remove_data)\n", ""))
W('C18-W-remove-data-handler-emptied', 'C18', 'C18.a', (VIEWER, "    def _remove_data(self, message):\n        self.remove_data(message.data)", "    def _remove_data(self, message):\n        pass"))
W('C18-W-sync-not-registered', 'C18', 'C18.b', (VIEWER, "        self._layer_artist_container.on_changed(self._sync_state_layers)\n", ""))
W('C18-W-picker-no-components-changed', 'C18', 'C18.a', (DCH, "        hub.subscribe(self, ComponentsChangedMessage,\n                      handler=self.refresh,\n                      filter=self._filter_msg)\n        if self._data_collection is not None:", "        if self._data_collection is not None:"))
W('C18-W-restore-loop-no-append', 'C18', 'C18.c', (VIEWER, "                layer_state.viewer_state = viewer.state\n                viewer._layer_artist_container.append(layer_artist)", "                layer_state.viewer_state = viewer.state"))
W('C18-W-subset-delete-retargeted', 'C18', 'C18.a', (VIEWER, "        hub.subscribe(self, msg.SubsetDeleteMessage,\n                      handler=self._remove_subset,", "        hub.subscribe(self, msg.SubsetDeleteMessage,\n                      handler=self._update_subset,"))
W('C18-W-remove-data-live-iteration', 'C18', 'C18', (VIEWER, "            for layer_state in self.state.layers[::-1]:", "            for layer_state in self.state.layers:"))
W('C18-W-remove-data-skips-subsets', 'C18', 'C18.a', (VIEWER, "                else:\n                    if layer_state.layer.data is data:\n                        self.state.layers.remove(layer_state)\n", ""))
W('C18-W-restored-viewer-unregistered', 'C18', 'C18.c', (VIEWER, "        viewer.register_to_hub(session.hub)\n", ""))
W('C18-W-dc-picker-add-dropped', 'C18', 'C18.a', (DCH, "        hub.subscribe(self, DataCollectionAddMessage,\n                      handler=self.refresh,\n                      filter=self._filter_msg_is)\n", ""))
T('C18-T-handler-positional', 'C18', (VIEWER, "        hub.subscribe(self, msg.DataCollectionDeleteMessage,\n                      handler=self._remove_data)", "        hub.subscribe(self, msg.DataCollectionDeleteMessage,\n                      self._remove_data)"))

# ------------------------------------------------------------------ rules added after the seeded changes
W('C01-W-paste-shares-state', 'C01', 'C01.g', (SUBSET, "        state = other_subset.subset_state.copy()\n        self.subset_state = state\n\n    def __str__", "        state = other_subset.subset_state\n        self.subset_state = state\n\n    def __str__"))
W('C03-W-shortcut-keys-only', 'C03', 'C03.e', (DATA, "                    if self._externally_derivable_components[key].link is not derivable_components[key].link:\n                        break\n", "                    pass\n"))
W('C05-W-link-change-no-clear', 'C05', 'C05.a', (DATA, "        # Masks of selections on linked attributes are memoised, and depend on\n        # the links through which these attributes are derived.\n        clear_all_caches()\n", ""))
W('C05-W-nested-move-no-clear', 'C05', 'C05.b', (SUBSET, "        self._roi.move_to(*args)\n        clear_all_caches()\n", "        self._roi.move_to(*args)\n"))
W('C09-W-categories-unsorted', 'C09', 'C09.c', (ROI, "        self.categories = np.unique(self._categorical_helper(categories))", "        self.categories = np.asarray(self._categorical_helper(categories))"))
W('C13-W-session-not-wired', 'C13', 'C13.e', ('glue/core/session.py', "        self.command_stack.session = self\n", ""))
W('C13-W-app-undo-calls-redo', 'C13', 'C13.e', ('glue/core/application_base.py', "            self._cmds.undo()\n", "            self._cmds.redo()\n"))
W('C17-W-precedence-swapped', 'C17', 'C17.e', (DATA, "for cid_set in (self.main_components, self.derived_components, self.coordinate_components,", "for cid_set in (self.derived_components, self.main_components, self.coordinate_components,"))
T('C17-T-ambiguous-ge-2', 'C17', (DATA, "            elif len(result) > 1:\n                return None\n        return None", "            elif len(result) >= 2:\n                return None\n        return None"))

# ------------------------------------------------------------------ C19
EXP_FITS = 'glue/core/data_exporters/gridded_fits.py'
EXP_H5 = 'glue/core/data_exporters/hdf5.py'
EXP_TAB = 'glue/core/data_exporters/astropy_table.py'
HELP = 'glue/core/data_factories/helpers.py'
W('C19-W-fits-masks-in-place', 'C19', 'C19.b', (EXP_FITS, "            # We need to copy the values so that we can mask them\n            values = values.copy()\n", ""))
W('C19-W-hdf5-main-only', 'C19', 'C19.a', (EXP_H5, "    for cid in data.main_components + data.derived_components:", "    for cid in data.main_components:"))
W('C19-W-table-mask-not-applied', 'C19', 'C19.b', (EXP_TAB, "        if mask is not None:\n            values = values[mask]\n", ""))
W('C19-W-hdf5-mask-after-data', 'C19', 'C19.b', (EXP_H5, "        mask = data.to_mask()\n        data = data.data", "        data = data.data\n        mask = data.to_mask()"))
W('C19-W-reload-drops-kwargs', 'C19', 'C19.c', (HELP, "            d = load_data(self.path, factory=self.factory, **self.kwargs)", "            d = load_data(self.path, factory=self.factory)"))
W('C19-W-loadlog-path-renamed', 'C19', 'C19.c', (HELP, "        return dict(path=path,\n                    factory=context.do(self.factory),", "        return dict(filename=path,\n                    factory=context.do(self.factory),"))
W('C19-W-hdf5-copy-dropped', 'C19', 'C19.b', (EXP_H5, "            values = data[cid].copy()", "            values = data[cid]"))
T('C19-T-table-local-rename', 'C19', (EXP_TAB, "        values = data[cid]\n\n        if mask is not None:\n            values = values[mask]\n\n        table[cid.label] = values", "        column = data[cid]\n\n        if mask is not None:\n            column = column[mask]\n\n        table[cid.label] = column"))

# ------------------------------------------------------------------ C03.f / C18.e / C16 drop
LA = 'glue/core/layer_artist.py'
W('C03-W-inverse-uses-forward-fn', 'C03', 'C03.f', ('glue/core/component_link.py', "                                                                 using=self._inverse,\n                                                                 inverse=self._using,", "                                                                 using=self._using,\n                                                                 inverse=self._inverse,"))
W('C03-W-links-drop-internal', 'C03', 'C03.f', (LM, "        return data_links | external_links", "        return external_links"))
W('C03-W-discover-no-depth-test', 'C03', 'C03.f', (LM, "            if to_ in cids and cost >= depth[to_]:\n                continue\n", "            if to_ in cids:\n                continue\n"))
W('C03-W-accessible-any-input', 'C03', 'C03.f', (LM, "            set(l.get_from_ids()) <= cids]", "            set(l.get_from_ids()) & cids]"))
W('C18-W-container-remove-no-notify', 'C18', 'C18.e', (LA, "            self.artists.remove(artist)\n            artist.remove()\n            self._notify()", "            self.artists.remove(artist)\n            artist.remove()"))
W('C18-W-container-append-notify-conditional', 'C18', 'C18.e', (LA, "        artist.zorder = max(a.zorder for a in self.artists) + 1\n        self._notify()", "        artist.zorder = max(a.zorder for a in self.artists) + 1\n        if len(self.artists) > 1:\n            self._notify()"))
W('C16-W-scalar-bounds-kept', 'C16', 'C16.c', (FRB, "        if isinstance(bound, tuple):\n            slices.append(slice(None))\n        else:\n            slices.append(0)", "        slices.append(slice(None))"))

# ------------------------------------------------------------------ C02.g / C17.g
W('C02-W-load-data-skips-derived', 'C02', 'C02.g', (STATE, "                comps[icomp] = (cid, comp)\n\n        result.add_component(comp, cid)\n\n    assert result._world_component_ids == []\n\n    coord = [c for c in comps if isinstance(c[1], CoordinateComponent)]\n    coord = [x[0] for x in sorted(coord, key=lambda x: x[1])]\n\n    if getattr(result, 'coords') is not None:", "                comps[icomp] = (cid, comp)\n\n        if not isinstance(comp, DerivedComponent):\n            result.add_component(comp, cid)\n\n    assert result._world_component_ids == []\n\n    coord = [c for c in comps if isinstance(c[1], CoordinateComponent)]\n    coord = [x[0] for x in sorted(coord, key=lambda x: x[1])]\n\n    if getattr(result, 'coords') is not None:"))
W('C02-W-save-collection-drops-groups', 'C02', 'C02', (STATE, "                components=list(map(context.id, components)),\n                groups=list(map(context.id, dc.subset_groups)),\n                subset_group_count=dc._sg_count)", "                components=list(map(context.id, components)),\n                subset_group_count=dc._sg_count)"))
W('C17-W-pixel-created-always', 'C17', 'C17.g', (DATA, "        if len(self._components) == 0:\n            # TODO: make sure the following doesn't raise a componentsraised message\n            self._create_pixel_and_world_components(ndim=component.ndim)", "        if len(self._components) <= 1:\n            # TODO: make sure the following doesn't raise a componentsraised message\n            self._create_pixel_and_world_components(ndim=component.ndim)"))
W('C17-W-world-axis-index-0', 'C17', 'C17.g', (DATA, "                    comp = CoordinateComponent(self, i, world=True)", "                    comp = CoordinateComponent(self, 0, world=True)"))

# ------------------------------------------------------------------ C17.h / C18.f / C10.d / C05.d / C06.a rebind
COMBO = 'glue/core/data_combo_helper.py'
W('C17-W-silent-pop-in-helper', 'C17', 'C17.h', (DATA, "        for cid in remove:\n            self.remove_component(cid)\n", "        for cid in remove:\n            self._components.pop(cid, None)\n"))
W('C17-W-subsets-cleared-elsewhere', 'C17', 'C17.h', (DATA, "    def _set_pixel_aligned_data(self, pixel_aligned_data):\n", "    def _drop_all_subsets(self):\n        self._subsets.clear()\n\n    def _set_pixel_aligned_data(self, pixel_aligned_data):\n"))
T('C17-T-reader-helper', 'C17', (DATA, "    def _set_pixel_aligned_data(self, pixel_aligned_data):\n", "    def _n_components(self):\n        return len(self._components) + len(self._subsets)\n\n    def _set_pixel_aligned_data(self, pixel_aligned_data):\n"))
W('C18-W-pixel-flag-dropped', 'C18', 'C18.f', (COMBO, "                if self.pixel_coord:\n                    cids += data.pixel_component_ids", "                cids += data.pixel_component_ids"))
W('C18-W-derived-without-numeric', 'C18', 'C18.f', (COMBO, "            if self.numeric and self.derived:", "            if self.derived:"))
W('C18-W-categorical-under-numeric', 'C18', 'C18.f', (COMBO, "(data.get_kind(cid) == 'categorical' and self.categorical)", "(data.get_kind(cid) == 'categorical' and self.numeric)"))
T('C18-T-flags-reordered', 'C18', (COMBO, "            if self.numeric and self.derived:", "            if self.derived and self.numeric:"))
W('C10-W-nudge-signed', 'C10', 'C10.d', (DATA, "            xmax += 10 * np.spacing(abs(xmax))", "            xmax += 10 * np.spacing(xmax)"))
W('C10-W-nudge-dropped', 'C10', 'C10.d', (DATA, "        if ndim >= 2:\n            ymax += 10 * np.spacing(abs(ymax))\n", ""))
T('C10-T-nudge-abs-outside', 'C10', (DATA, "            xmax += 10 * np.spacing(abs(xmax))", "            xmax += 10 * np.abs(np.spacing(xmax))"))
T('C10-T-nudge-larger', 'C10', (DATA, "            xmax += 10 * np.spacing(abs(xmax))", "            xmax += 16 * np.spacing(np.abs(xmax))"))
W('C05-W-sample-cache-key-size', 'C05', 'C05.d', (DATA, "self._random_subset_indices[0] != data.shape:\n                    self._random_subset_indices = (data.shape,", "self._random_subset_indices[0] != data.size:\n                    self._random_subset_indices = (data.size,"))
W('C05-W-sample-cache-key-mismatch', 'C05', 'C05.d', (DATA, "self._random_subset_indices[0] != data.shape:", "self._random_subset_indices[0] != data.size:"))
W('C06-W-remove-data-rebinds', 'C06', 'C06.a', ('glue/core/subset_group.py', "        for s in list(self.subsets):\n            if s.data is data:\n                self.subsets.remove(s)\n                s.delete()\n", "        self.subsets = [s for s in self.subsets if s.data is not data]\n"))
W('C10-W-unbroadcast-for-sum', 'C10', 'C10.e', (DATA, "        if axis is None and mask is None and statistic not in ('sum', 'percentile'):", "        if axis is None and mask is None:"))
W('C10-W-unbroadcast-for-percentile', 'C10', 'C10.e', (DATA, "        if axis is None and mask is None and statistic not in ('sum', 'percentile'):", "        if axis is None and mask is None and statistic != 'sum':"))
T('C10-T-unbroadcast-whitelist', 'C10', (DATA, "        if axis is None and mask is None and statistic not in ('sum', 'percentile'):", "        if axis is None and mask is None and statistic in ('minimum', 'maximum', 'mean', 'median'):"))
T('C10-T-unbroadcast-nested-guard', 'C10', (DATA, "        if axis is None and mask is None and statistic not in ('sum', 'percentile'):\n            # Since we are just finding overall statistics, not along axes, we\n            # can remove any broadcasted dimension since these do not affect\n            # the statistics (except for sums and interpolated percentiles,\n            # which depend on how often each value is repeated).\n            data = unbroadcast(data)\n", "        if axis is None and mask is None:\n            if statistic != 'sum' and statistic != 'percentile':\n                data = unbroadcast(data)\n"))
UTIL = 'glue/core/util.py'
CLINK = 'glue/core/component_link.py'
W('C14-W-join-explodes-views', 'C14', 'C14.e', (UTIL, "    if isinstance(view, tuple):\n        return (component,) + view\n", "    try:\n        return (component,) + tuple(view)\n    except TypeError:\n        pass\n"))
W('C14-W-compute-ignores-view', 'C14', 'C14', (CLINK, "        args = [data[join_component_view(f, view)] for f in self._from]", "        args = [data[f] for f in self._from]"))
T('C14-T-compute-direct-key', 'C14', (CLINK, "        args = [data[join_component_view(f, view)] for f in self._from]", "        args = [data[f, view] for f in self._from]"))
T('C14-T-binary-through-join', 'C14', (CLINK, "data[self._left, view]", "data[join_component_view(self._left, view)]"), (CLINK, "data[self._right, view]", "data[join_component_view(self._right, view)]"))

# ------------------------------------------------------------------ C15.d / C15.e
CH = 'glue/core/coordinate_helpers.py'
W('C15-W-dependence-with-tolerance', 'C15', 'C15.d', ('glue/core/coordinates.py', "        return self._matrix[:-1, :-1] != 0", "        return np.abs(self._matrix[:-1, :-1]) > 1e-10"))
W('C15-W-dependent-axes-pixel-only', 'C15', 'C15.e', (CH, "    if axis < n_world:\n        world[axis] = True\n", ""))
W('C15-W-inverse-reads-column', 'C15', 'C15.e', (CH, "    world_dep = _coupled_axes(matrix, pixel_dep, np.zeros(matrix.shape[0], dtype=bool))[1]\n", "    world_dep = matrix[:, pixel_axis]\n"))
W('C15-W-forward-reads-column', 'C15', 'C15.e', (CH, "    pixel_dep = wcs.axis_correlation_matrix[world_axis, :]", "    pixel_dep = wcs.axis_correlation_matrix[:, world_axis]"))
T('C15-T-closure-locals-renamed', 'C15', (CH, "        new_world = world | matrix[:, pixel].any(axis=1)\n        new_pixel = pixel | matrix[new_world, :].any(axis=0)\n        if np.array_equal(new_world, world) and np.array_equal(new_pixel, pixel):\n            return pixel, world\n        pixel, world = new_pixel, new_world\n", "        w2 = world | matrix[:, pixel].any(axis=1)\n        p2 = pixel | matrix[w2, :].any(axis=0)\n        if np.array_equal(w2, world) and np.array_equal(p2, pixel):\n            return pixel, world\n        pixel, world = p2, w2\n"))

# ------------------------------------------------------------------ C06.e
CMDPY = 'glue/core/command.py'
W('C06-W-undo-deletes-grouped', 'C06', 'C06.e', (CMDPY, "                if (subset not in self.old_states and\n                        getattr(subset, 'group', None) not in self.data_collection.subset_groups):\n                    subset.delete()\n\n        for k, v in self.old_states.items():\n            k.subset_state = v\n\n        session.edit_subset_mode.edit_subset = self.old_edit_subset\n\n\nclass LinkData", "                if subset not in self.old_states:\n                    subset.delete()\n\n        for k, v in self.old_states.items():\n            k.subset_state = v\n\n        session.edit_subset_mode.edit_subset = self.old_edit_subset\n\n\nclass LinkData"))
T('C06-T-undo-excludes-by-type', 'C06', (CMDPY, "                if (subset not in self.old_states and\n                        getattr(subset, 'group', None) not in self.data_collection.subset_groups):\n                    subset.delete()\n\n        for k, v in self.old_states.items():\n            k.subset_state = v\n\n        session.edit_subset_mode.edit_subset = self.old_edit_subset\n\n\nclass LinkData", "                if subset not in self.old_states and not isinstance(subset, GroupedSubset):\n                    subset.delete()\n\n        for k, v in self.old_states.items():\n            k.subset_state = v\n\n        session.edit_subset_mode.edit_subset = self.old_edit_subset\n\n\nclass LinkData"))
SGPY = 'glue/core/subset_group.py'
W('C06-W-add-data-unconditional', 'C06', 'C06.f', (SGPY, "        if any(s.data is data for s in self.subsets):\n            return\n", ""))
T('C06-T-add-data-guard-negated', 'C06', (SGPY, "        if any(s.data is data for s in self.subsets):\n            return\n        s = GroupedSubset(data, self)\n        data.add_subset(s)\n        self.subsets.append(s)\n", "        if data not in [s.data for s in self.subsets]:\n            s = GroupedSubset(data, self)\n            data.add_subset(s)\n            self.subsets.append(s)\n"))

# ------------------------------------------------------------------ C08.e x/y sibling agreement
ROIPY = 'glue/core/roi.py'
W('C08-W-closed-test-slice', 'C08', 'C08.e', (ROIPY, "        if self.vx[-1] == self.vx[0] and self.vy[-1] == self.vy[0]:\n            return np.mean(self.vx[:-1]), np.mean(self.vy[:-1])", "        if self.vx[-1] == self.vx[0] and self.vy[:-1] == self.vy[0]:\n            return np.mean(self.vx[:-1]), np.mean(self.vy[:-1])"))
W('C08-W-mean-y-keeps-last', 'C08', 'C08.e', (ROIPY, "            return np.mean(self.vx[:-1]), np.mean(self.vy[:-1])", "            return np.mean(self.vx[:-1]), np.mean(self.vy)"))
T('C08-T-closed-test-reordered', 'C08', (ROIPY, "        if self.vx[-1] == self.vx[0] and self.vy[-1] == self.vy[0]:\n            return np.mean(self.vx[:-1]), np.mean(self.vy[:-1])", "        if self.vy[-1] == self.vy[0] and self.vx[-1] == self.vx[0]:\n            return np.mean(self.vx[:-1]), np.mean(self.vy[:-1])"))
ARRPY = 'glue/utils/array.py'
W('C04-W-codes-lookup-unflattened', 'C04', 'C04.d', (ARRPY, "            self._codes = index_lookup(np.asarray(self).ravel(), self._categories).reshape(self.shape)", "            self._codes = index_lookup(self, self._categories)"))
W('C04-W-codes-lookup-not-reshaped', 'C04', 'C04.d', (ARRPY, "            self._codes = index_lookup(np.asarray(self).ravel(), self._categories).reshape(self.shape)", "            self._codes = index_lookup(np.asarray(self).ravel(), self._categories)"))
T('C04-T-codes-lookup-flat-form', 'C04', (ARRPY, "            self._codes = index_lookup(np.asarray(self).ravel(), self._categories).reshape(self.shape)", "            self._codes = index_lookup(np.asarray(self).flatten(), self._categories).reshape(self.shape)"))
W('C10-W-padding-kept-after-bailout', 'C10', 'C10.f', (DATA, "                    else:\n                        # The values are not restricted to the subarray, so the\n                        # result should not be padded further down\n                        subarray_slices = None\n", ""))
T('C10-T-bailout-resets-at-site', 'C10', (DATA, "                                    use_subarray_slices = False\n                                    new_view = view\n                                    break", "                                    use_subarray_slices = False\n                                    subarray_slices = None\n                                    new_view = view\n                                    break"))
JOINSPY = 'glue/core/joins.py'
W('C11-W-nn-keys-raw-dtypes', 'C11', 'C11.d', (JOINSPY, "                key_left_all.append(key_left.astype(dtype))\n                key_right_all.append(key_right.astype(dtype))\n", "                key_left_all.append(key_left)\n                key_right_all.append(key_right)\n"))
W('C11-W-nn-keys-swapped-after-cast', 'C11', 'C11.b', (JOINSPY, "                key_left_all.append(key_left.astype(dtype))\n                key_right_all.append(key_right.astype(dtype))\n", "                key_left_all.append(key_right.astype(dtype))\n                key_right_all.append(key_left.astype(dtype))\n"))
T('C11-T-nn-promote-types', 'C11', (JOINSPY, "                dtype = np.result_type(key_left, key_right)\n", "                dtype = np.promote_types(key_left.dtype, key_right.dtype)\n"))
W('C19-W-loadlog-count-all-datasets', 'C19', 'C19.e', (HELP, "                        if isinstance(comp, CoordinateComponent) and\n                        comp._data is self.data[0]])", "                        if isinstance(comp, CoordinateComponent)])"))

# ------------------------------------------------------------------ C08.f / C09.d
W('C08-W-ellipse-box-signed-extent', 'C08', 'C08.f', (ROIPY, "            radius = max(self.radius_x, self.radius_y)\n            return [[self.xc - radius, self.xc + radius],", "            radius = self.radius_x * np.cos(self.theta) + self.radius_y * np.sin(self.theta)\n            return [[self.xc - radius, self.xc + radius],"))
T('C08-T-ellipse-box-abs-extent', 'C08', (ROIPY, "            radius = max(self.radius_x, self.radius_y)\n            return [[self.xc - radius, self.xc + radius],", "            radius = np.hypot(self.radius_x, self.radius_y)\n            return [[self.xc - radius, self.xc + radius],"))
W('C09-W-range-outside-test', 'C09', 'C09.d', (SUBSET, "        result = (x >= self.lo) & (x <= self.hi)", "        result = ~((x < self.lo) | (x > self.hi))"))
# ------------------------------------------------------------------ C11.e (value-exact keys)
W('C11-W-keys-cast-to-float', 'C11', 'C11.e', (JOINSPY, "                key_left_all.append(key_left.astype(dtype))\n                key_right_all.append(key_right.astype(dtype))\n", "                key_left_all.append(key_left.astype(np.float64))\n                key_right_all.append(key_right.astype(np.float64))\n"))
W('C11-W-11-keys-asarray-float', 'C11', 'C11.e', (JOINSPY, "            mask = np.isin(key_left.ravel(), key_right.ravel())\n", "            mask = np.isin(np.asarray(key_left.ravel(), dtype=float), np.asarray(key_right.ravel(), dtype=float))\n"))
W('C11-W-assume-unique-1n', 'C11', 'C11.e', (JOINSPY, "                key_right = other.get_data(cid2_i, view=mask_right).ravel()\n                mask |= np.isin(key_left, key_right)", "                key_right = other.get_data(cid2_i, view=mask_right).ravel()\n                mask |= np.isin(key_left, key_right, assume_unique=True)"))
T('C11-T-assume-unique-false', 'C11', (JOINSPY, "            mask = np.isin(key_left_all, key_right_all)", "            mask = np.isin(key_left_all, key_right_all, assume_unique=False)"))
T('C11-T-mask-buffer-zeros-bool', 'C11', (JOINSPY, "            mask = np.zeros_like(key_left, dtype=bool)", "            mask = np.zeros(key_left.shape, dtype=bool)"))
T('C11-T-common-dtype-inline', 'C11', (JOINSPY, "                dtype = np.result_type(key_left, key_right)\n                key_left_all.append(key_left.astype(dtype))\n                key_right_all.append(key_right.astype(dtype))\n", "                common = np.result_type(key_left, key_right)\n                key_left_all.append(key_left.astype(common))\n                key_right_all.append(key_right.astype(common))\n"))
# ------------------------------------------------------------------ C02.j
T('C02-T-id-assert-dropped-disambiguate-intact', 'C02', (STATE, "        name = self._label(obj)\n        assert name not in self._objs\n", "        name = self._label(obj)\n"))
W('C02-W-disambiguate-unchecked-return', 'C02', 'C02.j', (STATE, "        name = self._label(obj)\n        assert name not in self._objs\n", "        name = self._label(obj)\n"), (STATE, "            if newname not in self._objs:\n                return newname\n", "            return newname\n"))
T('C02-T-callbacks-list-snapshot', 'C02', (STATE, "        for callback in self._callbacks[:]:", "        for callback in list(self._callbacks):"))
W('C02-W-callbacks-rebound', 'C02', 'C02.j', (STATE, "                try:\n                    self._callbacks.remove(callback)\n                except ValueError:\n                    pass\n", "                self._callbacks = [c for c in self._callbacks if c is not callback]\n"))

# C01.h - the repaired defect F35 must be reported again if it returns; the repaired form and an equivalent spelling are silent
W('C01-W-attributes-extend-operand-list', 'C01', 'C01.h', (SUBSET, "        att = tuple(self.state1.attributes)\n        if self.state2 is not None:\n            att += tuple(self.state2.attributes)", "        att = self.state1.attributes\n        if self.state2 is not None:\n            att += self.state2.attributes"))
W('C01-W-multior-attributes-extend', 'C01', 'C01.h', (SUBSET, "        att = tuple(self.states[0].attributes)\n        for state in self.states[1:]:\n            att += tuple(state.attributes)", "        att = self.states[0].attributes\n        for state in self.states[1:]:\n            att.extend(state.attributes)"))
T('C01-T-attributes-list-copy', 'C01', (SUBSET, "        att = tuple(self.state1.attributes)\n        if self.state2 is not None:\n            att += tuple(self.state2.attributes)", "        att = list(self.state1.attributes)\n        if self.state2 is not None:\n            att.extend(self.state2.attributes)"))

# C15.f - F36 (index arrays of different shapes) must be reported again if it returns
COMPONENT_PY = 'glue/core/component.py'
W('C15-W-index-arrays-not-broadcast', 'C15', 'C15.f', (COMPONENT_PY, "                return self._world_at_pixel_positions(np.broadcast_arrays(*pixel))", "                return self._world_at_pixel_positions(pixel)"))
T('C15-T-index-arrays-broadcast-local', 'C15', (COMPONENT_PY, "                return self._world_at_pixel_positions(np.broadcast_arrays(*pixel))", "                positions = np.broadcast_arrays(*pixel)\n                return self._world_at_pixel_positions(positions)"))

# C04.g - F37 (IndexedData views) must be reported again if it returns
DERIVED_PY = 'glue/core/data_derived.py'
W('C04-W-indexed-short-view-not-completed', 'C04', 'C04.g', (DERIVED_PY, "            view = list(view) + [slice(None)] * (self.ndim - len(view))\n", "            view = list(view)\n"))
W('C04-W-indexed-ellipsis-not-replaced', 'C04', 'C04.g', (DERIVED_PY, "        if view is None or view is Ellipsis:\n", "        if view is None:\n"))
T('C04-T-indexed-view-tuple-forms', 'C04', (DERIVED_PY, "            view = list(view) + [slice(None)] * (self.ndim - len(view))\n", "            view = tuple(view) + (slice(None),) * (self.ndim - len(view))\n"))

# C12.h - F38 (protocol-3 joins) must be reported again if it returns
STATE_PY_ = 'glue/core/state.py'
W('C12-W-v3-joins-bare-identifiers', 'C12', 'C12.h', (STATE_PY_, "        return cids if isinstance(cids, tuple) else (cids,)\n", "        return cids\n"))
T('C12-T-v3-joins-tuple-or-list', 'C12', (STATE_PY_, "        return cids if isinstance(cids, tuple) else (cids,)\n", "        return cids if isinstance(cids, (tuple, list)) else (cids,)\n"))

# F39 / F40 must be reported again if they return
W('C01-W-multior-keeps-callers-list', 'C01', 'C01.d(i)', (SUBSET, "        self.states = list(states)\n", "        self.states = states\n"))
T('C01-T-multior-list-comprehension', 'C01', (SUBSET, "        self.states = list(states)\n", "        self.states = [state for state in states]\n"))
PARSE_PY = 'glue/core/parse.py'
W('C14-W-parsed-link-no-replace-ids', 'C14', 'C14.g', (PARSE_PY, "    def replace_ids(self, old, new):\n        super(ParsedComponentLink, self).replace_ids(old, new)\n", "    def _replace_ids_unused(self, old, new):\n        super(ParsedComponentLink, self).replace_ids(old, new)\n"))

# F41 (boolean-mask views of indexed datasets) must be reported again if it returns
W('C04-W-indexed-mask-view-not-translated', 'C04', 'C04.g', (DERIVED_PY, "        elif isinstance(view, np.ndarray) and view.dtype == bool:\n            # a boolean mask selects the same elements as its index arrays\n            view = np.nonzero(view)\n", ""))

# F42 (a polygon rotated by half a turn kept its vertices) must be reported again if it returns
W('C08-W-polygon-half-turn-skipped', 'C08', 'C08.k', (ROIPY, "not np.isclose(dtheta % (2 * np.pi), 0.0, atol=1e-9)", "not np.isclose(dtheta % np.pi, 0.0, atol=1e-9)"))

# ------------------------------------------------------------------ round-6 rules: twins that must stay silent, witnesses that must fire
T('C15-T-closure-exit-elementwise', 'C15', (CH, "        if np.array_equal(new_world, world) and np.array_equal(new_pixel, pixel):\n            return pixel, world\n", "        if (new_world == world).all() and (new_pixel == pixel).all():\n            return new_pixel, new_world\n"))
W('C15-W-closure-exit-one-mask', 'C15', 'C15.h', (CH, "        if np.array_equal(new_world, world) and np.array_equal(new_pixel, pixel):\n            return pixel, world\n", "        if np.array_equal(new_pixel, pixel):\n            return new_pixel, new_world\n"))
T('C14-T-view-saved-and-put-back', 'C14', (PARSE_PY, "        cmd = _dereference(self._cmd, self._references)\n\n        scope = vars(env)\n        scope['__view'] = view\n", "        cmd = _dereference(self._cmd, self._references)\n\n        scope = vars(env)\n        outer_view = scope.get('__view')\n        scope['__view'] = view\n"), (PARSE_PY, "        result = eval(cmd, global_variables, locals())  # careful!\n", "        result = eval(cmd, global_variables, locals())  # careful!\n        scope['__view'] = outer_view\n"))
T('C02-T-coord-sort-explicit-key', 'C02', (STATE, "    coord = [c for c in comps if isinstance(c[1], CoordinateComponent)]\n    coord = [x[0] for x in sorted(coord, key=lambda x: x[1])]\n\n    if getattr(result, 'coords') is not None:", "    coord = [c for c in comps if isinstance(c[1], CoordinateComponent)]\n    coord = [x[0] for x in sorted(coord, key=lambda x: (not x[1].world, x[1].axis))]\n\n    if getattr(result, 'coords') is not None:"))
T('C03-T-collection-contains-any', 'C03', (LH, "        for link in self:\n            if cid in link:\n                return True\n        return False\n", "        return any(cid in link for link in self._links)\n"))
T('C08-T-polygon-whole-turn-other-spelling', 'C08', (ROIPY, "not np.isclose(dtheta % (2 * np.pi), 0.0, atol=1e-9)", "not np.isclose(dtheta % (np.pi * 2), 0.0, atol=1e-9)"))
W('C08-W-polygon-move-in-place', 'C08', 'C08.j', (ROIPY, "        self.vx = list(map(lambda x: x + xdelta, self.vx))\n        self.vy = list(map(lambda y: y + ydelta, self.vy))\n", "        self.vx[:] = list(map(lambda x: x + xdelta, self.vx))\n        self.vy[:] = list(map(lambda y: y + ydelta, self.vy))\n"))
T('C08-T-polygon-move-comprehension', 'C08', (ROIPY, "        self.vx = list(map(lambda x: x + xdelta, self.vx))\n        self.vy = list(map(lambda y: y + ydelta, self.vy))\n", "        self.vx = [x + xdelta for x in self.vx]\n        self.vy = [y + ydelta for y in self.vy]\n"))
T('C07-T-priority-none-default', 'C07', ('glue/core/hub.py', "        if not handler:\n            handler = subscriber.notify\n", "        if not handler:\n            handler = subscriber.notify\n        if priority is None:\n            priority = 10\n"))

# ------------------------------------------------------------------ round-7 rules
HCC = 'glue/core/hub_callback_container.py'
T('C07-T-auto-remove-membership', 'C07', (HCC, "            if value[1] is method_instance or value[3] is method_instance:\n", "            if method_instance in (value[1], value[3]):\n"))
T('C07-T-auto-remove-comprehension', 'C07', (HCC, "        remove = []\n        for key, value in self.callbacks.items():\n            if value[1] is method_instance or value[3] is method_instance:\n                remove.append(key)\n        for key in remove:\n            self.callbacks.pop(key)\n", "        self.callbacks = {key: value for key, value in self.callbacks.items()\n                          if value[1] is not method_instance and value[3] is not method_instance}\n"))
W('C07-W-auto-remove-handler-only', 'C07', 'C07.f', (HCC, "            if value[1] is method_instance or value[3] is method_instance:\n", "            if value[1] is method_instance:\n"))
FRB = 'glue/core/fixed_resolution_buffer.py'
T('C16-T-dimensions-augassign', 'C16', (FRB, "        values_all.append(values)\n        dimensions_all.extend(dimensions)\n    # Unbroadcast arrays", "        values_all.append(values)\n        dimensions_all += dimensions\n    # Unbroadcast arrays"))
W('C16-W-dimensions-after-loop', 'C16', 'C16.h', (FRB, "        values_all.append(values)\n        dimensions_all.extend(dimensions)\n    # Unbroadcast arrays", "        values_all.append(values)\n    dimensions_all.extend(dimensions)\n    # Unbroadcast arrays"))
HIST = 'glue/viewers/histogram/state.py'
T('C05-T-histogram-explicit-copy', 'C05', (HIST, "        scaled = unscaled.astype(float)\n", "        scaled = np.array(unscaled, dtype=float)\n"))
W('C05-W-histogram-asarray', 'C05', 'C05.g', (HIST, "        scaled = unscaled.astype(float)\n", "        scaled = np.asarray(unscaled)\n"))
T('C14-T-validate-group0', 'C14', (PARSE_PY, "        full_tag = match.string[slice(*match.span())]\n", "        full_tag = match.group(0)\n"))
