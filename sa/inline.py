"""Inlining of *new* private helpers.

The rules of this checker are written against the functions of the tree they were confirmed on.  The most common
behaviour-preserving edit - extracting a few statements into a new private helper - moves the construct a rule looks for
into a function the rule has never heard of.  Min et al. treat a wrapper as performing the operation when all its paths
do; here the same is achieved syntactically: a call to a helper that did not exist when the rule tables were frozen
(``sa/known_functions.txt``) is replaced by the helper's body, with parameters substituted, before any rule looks at the
caller.  On the tree the tables were frozen on nothing is inlined, so no verdict there changes.

Only semantics-preserving cases are inlined (see ``_inline_call``); anything else is left as a call.  Nothing is executed.
"""
import ast
import copy

MAX_DEPTH = 3


def unparse_(e):
    try:
        return ast.unparse(e)
    except Exception:
        return ''


def _strip_doc(body):
    if body and isinstance(body[0], ast.Expr) and isinstance(body[0].value, ast.Constant) and isinstance(body[0].value.value, str):
        return body[1:]
    return body


def _simple_arg(e):
    """Side-effect free and cheap to duplicate."""
    if isinstance(e, (ast.Name, ast.Constant)):
        return True
    if isinstance(e, ast.Attribute):
        return _simple_arg(e.value)
    if isinstance(e, ast.Subscript):
        return _simple_arg(e.value) and isinstance(e.slice, (ast.Constant, ast.Name))
    if isinstance(e, ast.UnaryOp):
        return _simple_arg(e.operand)
    if isinstance(e, (ast.Tuple, ast.List)):
        return all(_simple_arg(x) for x in e.elts)
    return False


def _assigned_names(node):
    out = set()
    for n in ast.walk(node):
        if isinstance(n, ast.Name) and isinstance(n.ctx, (ast.Store, ast.Del)):
            out.add(n.id)
        elif isinstance(n, (ast.FunctionDef, ast.ClassDef)):
            out.add(n.name)
    return out


class _Subst(ast.NodeTransformer):
    """Parameters replaced by the argument expressions.  A `**kw` parameter (key '**kw' -> list of keyword nodes) is expanded
    where the helper passes it on (`f(x, **kw)`)."""

    def __init__(self, mapping):
        self.mapping = {k: v for k, v in mapping.items() if not k.startswith('**')}
        self.star = {k[2:]: v for k, v in mapping.items() if k.startswith('**')}

    def visit_Name(self, n):
        if n.id in self.mapping and isinstance(n.ctx, ast.Load):
            return copy.deepcopy(self.mapping[n.id])
        return n

    def visit_Call(self, c):
        self.generic_visit(c)
        if self.star:
            kws = []
            for k in c.keywords:
                if k.arg is None and isinstance(k.value, ast.Name) and k.value.id in self.star:
                    kws.extend(copy.deepcopy(self.star[k.value.id]))
                else:
                    kws.append(k)
            c.keywords = kws
        return c


def _fresh_comprehension_vars(node, taken):
    """The variables bound by the comprehensions of an inlined helper live in a scope of their own; once the helper's text sits
    in the caller they may share a name with one of the caller's locals, and a flow-insensitive reading by name would join the
    two.  Give those (and only those) a fresh name - the comprehension is unchanged up to its bound variable."""
    for c in ast.walk(node):
        if not isinstance(c, (ast.ListComp, ast.SetComp, ast.GeneratorExp, ast.DictComp)):
            continue
        bound = {n.id for g in c.generators for n in ast.walk(g.target) if isinstance(n, ast.Name)}
        ren = {}
        for b in sorted(bound & taken):
            k = b + '_'
            while k in taken or k in bound:
                k += '_'
            ren[b] = k
        if not ren:
            continue
        outer = {id(n) for n in ast.walk(c.generators[0].iter)}       # evaluated in the enclosing scope
        for n in ast.walk(c):
            if isinstance(n, ast.Name) and n.id in ren and id(n) not in outer:
                n.id = ren[n.id]
    return node


def _has_yield(node):
    return any(isinstance(n, (ast.Yield, ast.YieldFrom, ast.Await)) for n in ast.walk(node))


def _returns_outside_guards(body):
    """Are there Return statements in places the structured rewriting cannot handle (loops, try, with, nested defs excluded)?"""
    def scan(stmts, top):
        for i, st in enumerate(stmts):
            if isinstance(st, ast.Return):
                if not top or i != len(stmts) - 1:
                    # a return in the middle of a block (dead code after it) - only the last statement of a block is handled
                    if i != len(stmts) - 1:
                        return True
            elif isinstance(st, ast.If):
                if scan(st.body, True) or scan(st.orelse, True):
                    return True
            elif isinstance(st, ast.Try) and not st.finalbody:
                # block-final returns in the body / handlers / else of a try are rewritten structurally (see _rewrite_returns)
                if scan(st.body, True) or scan(st.orelse, True) or any(scan(h.body, True) for h in st.handlers):
                    return True
            elif isinstance(st, (ast.For, ast.While, ast.Try, ast.With, ast.AsyncFor, ast.AsyncWith)):
                for sub in ast.walk(st):
                    if isinstance(sub, ast.Return):
                        return True
        return False
    return scan(body, True)


def _loop_returns_to_breaks(body, tmp):
    """A helper that returns from inside its (single, top-level) loop - the "search loop" shape

        for x in xs:                      for x in xs:
            ...                               ...
            if found: return V       ->       if found: tmp = V; break
        return W                          else:
                                              tmp = W
                                          return tmp

    so that the structured return rewriting applies.  Returns the new statement list, or None when the body is not of that
    shape (returns in nested loops, a loop that already has an else clause or breaks of its own, returns before the loop, more
    than the one final return after it)."""
    idx = [i for i, st in enumerate(body) if isinstance(st, (ast.For, ast.While)) and any(isinstance(x, ast.Return) for x in ast.walk(st))]
    if len(idx) != 1:
        return None
    i = idx[0]
    loop, pre, tail = body[i], body[:i], body[i + 1:]
    if loop.orelse:
        return None
    if any(isinstance(x, ast.Return) for st in pre for x in ast.walk(st)) and \
            _returns_outside_guards(list(pre) + [ast.Return(value=ast.Constant(value=None))]):
        return None         # (guard clauses before the loop are fine: the structured rewriting takes care of them)
    trets = [x for st in tail for x in ast.walk(st) if isinstance(x, ast.Return)]
    if trets and not (len(trets) == 1 and tail[-1] is trets[0]):
        return None
    ok = [True]
    nret = [0]

    def assign(v, at):
        val = v if v is not None else ast.Constant(value=None)
        return ast.copy_location(ast.Assign(targets=[ast.Name(id=tmp, ctx=ast.Store())], value=val), at)

    def block(stmts):
        out = []
        for st in stmts:
            if isinstance(st, ast.Return):
                nret[0] += 1
                out.append(assign(st.value, st))
                out.append(ast.copy_location(ast.Break(), st))
                continue
            if isinstance(st, ast.Break):
                ok[0] = False
            if isinstance(st, (ast.For, ast.While, ast.AsyncFor, ast.FunctionDef, ast.AsyncFunctionDef, ast.ClassDef)):
                if any(isinstance(x, ast.Return) for x in ast.walk(st)) and not isinstance(st, (ast.FunctionDef, ast.AsyncFunctionDef, ast.ClassDef)):
                    ok[0] = False       # a return inside a nested loop: break would leave the wrong loop
                out.append(st)
                continue
            for fld in ('body', 'orelse', 'finalbody'):
                seq = getattr(st, fld, None)
                if isinstance(seq, list) and seq and isinstance(seq[0], ast.stmt):
                    setattr(st, fld, block(seq))
            if isinstance(st, ast.Try):
                for h in st.handlers:
                    h.body = block(h.body)
            out.append(st)
        return out
    loop.body = block(loop.body)
    if not ok[0] or not nret[0]:
        return None
    if trets:
        loop.orelse = list(tail[:-1]) + [assign(trets[0].value, trets[0])]
    else:
        loop.orelse = list(tail) + [assign(None, loop)]
    final = ast.copy_location(ast.Return(value=ast.Name(id=tmp, ctx=ast.Load())), loop)
    return list(pre) + [loop, final]


def _ends_with_return(stmts):
    if not stmts:
        return False
    last = stmts[-1]
    if isinstance(last, (ast.Return, ast.Raise)):
        return True
    if isinstance(last, ast.If):
        return _ends_with_return(last.body) and _ends_with_return(last.orelse)
    if isinstance(last, ast.Try) and not last.finalbody:
        return (_ends_with_return(last.body) or _ends_with_return(last.orelse)) and all(_ends_with_return(h.body) for h in last.handlers)
    return False


def _rewrite_returns(stmts, make):
    """Structured rewriting of a helper body whose returns are block-final: ``if c: return a`` + rest  ->  ``if c: <a> else: <rest>``.
    ``make(value_or_None)`` builds the statements that replace ``return value``."""
    out = []
    for i, st in enumerate(stmts):
        rest = stmts[i + 1:]
        if isinstance(st, ast.Return):
            out.extend(make(st.value))
            return out
        if isinstance(st, ast.If) and any(isinstance(x, ast.Return) for x in ast.walk(st)):
            body = _rewrite_returns(st.body, make)
            if _ends_with_return(st.body):
                orelse = _rewrite_returns(list(st.orelse) + rest, make)
                new = ast.If(test=st.test, body=body or [ast.Pass()], orelse=orelse)
                out.append(ast.copy_location(new, st))
                return out
            if st.orelse and _ends_with_return(st.orelse):
                orelse = _rewrite_returns(st.orelse, make)
                body = _rewrite_returns(list(st.body) + rest, make)
                new = ast.If(test=st.test, body=body or [ast.Pass()], orelse=orelse)
                out.append(ast.copy_location(new, st))
                return out
            orelse = _rewrite_returns(st.orelse, make)
            out.append(ast.copy_location(ast.If(test=st.test, body=body or [ast.Pass()], orelse=orelse), st))
            continue
        if isinstance(st, ast.Try) and not st.finalbody and any(isinstance(x, ast.Return) for x in ast.walk(st)):
            # `try: A  except E: return X` + rest   ->   `try: A  except E: <X>  else: rest`   (the else clause of a try is
            # not protected by its handlers, exactly like the statements that followed it; handlers that fall through get
            # their own copy of the rest)
            body_ret = _ends_with_return(st.body)
            new_body = _rewrite_returns(st.body, make)
            if body_ret:
                new_else = []
            else:
                new_else = _rewrite_returns(list(st.orelse) + [copy.deepcopy(r) for r in rest], make)
            handlers = []
            for h in st.handlers:
                if _ends_with_return(h.body):
                    hb = _rewrite_returns(h.body, make)
                else:
                    hb = _rewrite_returns(list(h.body) + [copy.deepcopy(r) for r in rest], make)
                handlers.append(ast.copy_location(ast.ExceptHandler(type=h.type, name=h.name, body=hb or [ast.Pass()]), h))
            out.append(ast.copy_location(ast.Try(body=new_body or [ast.Pass()], handlers=handlers, orelse=new_else, finalbody=[]), st))
            return out
        out.append(st)
    return out


def _in_deferred_context(st, call):
    """Is ``call`` evaluated zero or several times per execution of ``st`` (inside a comprehension, generator, lambda, the
    right operand of and/or, or an arm of a conditional expression)?"""
    found = [False]

    def walk(n, deferred):
        if n is call:
            found[0] = deferred
            return True
        if isinstance(n, (ast.ListComp, ast.SetComp, ast.DictComp, ast.GeneratorExp, ast.Lambda)):
            return any(walk(c, True) for c in ast.iter_child_nodes(n))
        if isinstance(n, ast.IfExp):
            return walk(n.test, deferred) or walk(n.body, True) or walk(n.orelse, True)
        if isinstance(n, ast.BoolOp):
            return walk(n.values[0], deferred) or any(walk(v, True) for v in n.values[1:])
        if isinstance(n, (ast.stmt,)) and n is not st:
            return False
        return any(walk(c, deferred) for c in ast.iter_child_nodes(n))
    walk(st, False)
    return found[0]


def _filter_loops(fnode):
    """`for x in filter(keep, xs): S`  ->  `for x in xs: if not keep(x): continue; S` (in place; True when something changed).
    The predicate is then read where it is applied - a local function or lambda given to filter() is a new helper like any
    other.  Only plain-name loop targets; filter(None, xs) tests the element itself."""
    hit = False
    for lp in ast.walk(fnode):
        if not isinstance(lp, ast.For) or not isinstance(lp.target, ast.Name):
            continue
        it = lp.iter
        if not (isinstance(it, ast.Call) and isinstance(it.func, ast.Name) and it.func.id == 'filter' and len(it.args) == 2 and not it.keywords):
            continue
        pred, src = it.args
        tgt = ast.Name(id=lp.target.id, ctx=ast.Load())
        if isinstance(pred, ast.Constant) and pred.value is None:
            test = tgt
        elif isinstance(pred, ast.Name):
            test = ast.Call(func=pred, args=[tgt], keywords=[])
        elif isinstance(pred, ast.Lambda) and len(pred.args.args) == 1 and not pred.args.defaults and not pred.args.vararg and not pred.args.kwarg:
            test = _Subst({pred.args.args[0].arg: tgt}).visit(copy.deepcopy(pred.body))
        else:
            continue
        skip = ast.If(test=ast.UnaryOp(op=ast.Not(), operand=test), body=[ast.Continue()], orelse=[])
        ast.copy_location(skip, lp)
        ast.fix_missing_locations(skip)
        lp.iter = src
        lp.body = [skip] + lp.body
        hit = True
    return hit


def _fold_item(stmts, item):
    """`item = E; xs.append(item)`  ->  `xs.append(E)` (the temporary of the synthetic consumer loops), in nested blocks too."""
    def block(seq):
        out = []
        i = 0
        while i < len(seq):
            st = seq[i]
            nxt = seq[i + 1] if i + 1 < len(seq) else None
            if isinstance(st, ast.Assign) and len(st.targets) == 1 and isinstance(st.targets[0], ast.Name) and st.targets[0].id == item and \
                    isinstance(nxt, ast.Expr) and isinstance(nxt.value, ast.Call) and len(nxt.value.args) == 1 and \
                    isinstance(nxt.value.args[0], ast.Name) and nxt.value.args[0].id == item:
                nxt.value.args[0] = st.value
                out.append(nxt)
                i += 2
                continue
            for fld in ('body', 'orelse', 'finalbody'):
                sub = getattr(st, fld, None)
                if isinstance(sub, list) and sub and isinstance(sub[0], ast.stmt):
                    setattr(st, fld, block(sub))
            if isinstance(st, ast.Try):
                for h in st.handlers:
                    h.body = block(h.body)
            out.append(st)
            i += 1
        return out
    return block(stmts)


def _splice_generator(loop, gnode, mapping, prelude):
    """`for T in gen(args): BODY`, gen a generator function whose yields are plain statements `yield E`  ->  gen's body with every
    `yield E` replaced by `T = E; BODY`.  The consumer sees the same values in the same order, interleaved with the generator's
    own statements exactly as the generator protocol interleaves them.  Conditions (else None): BODY has no `break` (it would
    have to stop the generator) and the loop no else clause; `continue` in BODY is allowed only when nothing follows a yield
    within an iteration of the generator; the generator has no return with a value, no try/finally or with around a yield, and
    does not yield inside an expression."""
    body = [copy.deepcopy(s) for s in _strip_doc(gnode.body)]
    body = [_Subst(mapping).visit(s) for s in body]
    consumer = loop.body

    def at_loop_level(stmts, kinds):
        for st in stmts:
            if isinstance(st, kinds):
                return True
            if isinstance(st, (ast.For, ast.While, ast.AsyncFor, ast.FunctionDef, ast.AsyncFunctionDef, ast.ClassDef)):
                continue
            for fld in ('body', 'orelse', 'finalbody'):
                seq = getattr(st, fld, None)
                if isinstance(seq, list) and seq and isinstance(seq[0], ast.stmt) and at_loop_level(seq, kinds):
                    return True
            if isinstance(st, ast.Try) and any(at_loop_level(h.body, kinds) for h in st.handlers):
                return True
        return False
    if at_loop_level(consumer, (ast.Break,)):
        return None
    has_continue = at_loop_level(consumer, (ast.Continue,))
    if any(isinstance(x, ast.Return) and x.value is not None for s_ in body for x in ast.walk(s_)):
        return None
    ok = [True]
    count = [0]

    def block(stmts, tail, guarded):
        """tail: is this block the end of an iteration (nothing runs after it before the next yield or the end)?"""
        out = []
        for i, st in enumerate(stmts):
            last = tail and i == len(stmts) - 1
            if isinstance(st, ast.Expr) and isinstance(st.value, ast.Yield):
                count[0] += 1
                if guarded or (has_continue and not last):
                    ok[0] = False
                val = st.value.value if st.value.value is not None else ast.Constant(value=None)
                asg = ast.copy_location(ast.Assign(targets=[copy.deepcopy(loop.target)], value=val), st)
                asg._from_yield = True
                out.append(asg)
                for x in consumer:
                    cp = copy.deepcopy(x)
                    for n in ast.walk(cp):
                        n._consumer = True
                    out.append(cp)
                continue
            if any(isinstance(x, (ast.Yield, ast.YieldFrom)) for x in ast.walk(st)):
                if isinstance(st, ast.If):
                    st.body = block(st.body, last, guarded)
                    st.orelse = block(st.orelse, last, guarded)
                elif isinstance(st, (ast.For, ast.While)) and not st.orelse:
                    # a `continue` of the consumer must land at the next iteration of this loop
                    st.body = block(st.body, True, guarded)
                elif isinstance(st, ast.Try) and not st.finalbody and not has_continue:
                    st.body = block(st.body, False, guarded)
                    st.orelse = block(st.orelse, False, guarded)
                    for h in st.handlers:
                        h.body = block(h.body, False, guarded)
                else:
                    ok[0] = False
            out.append(st)
        return out
    new = block(body, False, False)
    if not ok[0] or not count[0]:
        return None
    # names bound by the generator must not clash with what the consumer body uses from its own scope
    gen_locals = _assigned_names(ast.Module(body=body, type_ignores=[])) - set(mapping)
    used = {n.id for x in consumer for n in ast.walk(x) if isinstance(n, ast.Name)} | {n.id for n in ast.walk(loop.target) if isinstance(n, ast.Name)}
    clash = gen_locals & used
    if clash:
        # the generator's own variables get other names - except the one it yields under the very name the consumer gives it
        # (`for cid in ...: yield cid` consumed by `for cid in gen()`): that is the same value under the same name
        tnames = {n.id for n in ast.walk(loop.target) if isinstance(n, ast.Name)}
        same = set()
        if isinstance(loop.target, ast.Name):
            ys = [sub.value for x in new for sub in ast.walk(x) if isinstance(sub, ast.Assign) and getattr(sub, '_from_yield', False)]
            if ys and all(isinstance(v, ast.Name) and v.id == loop.target.id for v in ys):
                same.add(loop.target.id)
        ren = {}
        for nm in sorted(clash - same):
            k = nm + '_g'
            while k in used or k in gen_locals:
                k += '_'
            ren[nm] = k
        marker = {id(n) for x in new for n in ast.walk(x)}
        # rename inside the generator's statements only: the spliced consumer copies are recognised by their positions
        def rename(stmts, inside_consumer=False):
            for st in stmts:
                for n in ast.walk(st):
                    if isinstance(n, ast.Name) and n.id in ren and not getattr(n, '_consumer', False):
                        n.id = ren[n.id]
        for x in new:
            for sub in ast.walk(x):
                if isinstance(sub, ast.Assign) and getattr(sub, '_from_yield', False):
                    for n in ast.walk(sub.targets[0]):
                        n._consumer = True
        rename(new)
        if same:
            # `cid = cid` left by a yield under the consumer's own name
            class Drop(ast.NodeTransformer):
                def visit_Assign(self, n):
                    if getattr(n, '_from_yield', False) and isinstance(n.value, ast.Name) and isinstance(n.targets[0], ast.Name) \
                            and n.value.id == n.targets[0].id:
                        return None
                    return n
            new = [y for y in (Drop().visit(x) for x in new) if y is not None]
    return list(prelude) + new


def _unroll_literal_loops(fnode):
    """`for v in (self.a, self.b): BODY`  ->  BODY with v = self.a, then BODY with v = self.b (in place; True when something changed).
    A loop over a short literal tuple / list of attribute paths is a way of writing the same statements for each of them; what
    BODY does through `v` it does to those objects, and the rules (effects, write predicates) should see that.  Only when BODY
    neither rebinds `v` nor leaves the loop with break / continue, the loop has no else clause, and the elements are plain
    names or attribute paths (evaluating them has no effect)."""
    def path(e):
        return isinstance(e, ast.Name) or (isinstance(e, ast.Attribute) and path(e.value))
    hit = False

    def block(stmts):
        nonlocal hit
        out = []
        for st in stmts:
            for fld in ('body', 'orelse', 'finalbody'):
                seq = getattr(st, fld, None)
                if isinstance(seq, list) and seq and isinstance(seq[0], ast.stmt) and not isinstance(st, (ast.FunctionDef, ast.AsyncFunctionDef, ast.ClassDef)):
                    setattr(st, fld, block(seq))
            if isinstance(st, ast.Try):
                for h in st.handlers:
                    h.body = block(h.body)
            if isinstance(st, ast.For) and isinstance(st.target, ast.Name) and isinstance(st.iter, (ast.Tuple, ast.List)) and \
                    2 <= len(st.iter.elts) <= 4 and all(path(e) and isinstance(e, ast.Attribute) for e in st.iter.elts) and not st.orelse:
                v = st.target.id
                rebinds = any(isinstance(n, ast.Name) and n.id == v and isinstance(n.ctx, (ast.Store, ast.Del)) for b in st.body for n in ast.walk(b))
                leaves = any(isinstance(n, (ast.Break, ast.Continue)) for b in st.body for n in ast.walk(b))
                nested_use = any(isinstance(n, (ast.FunctionDef, ast.Lambda)) for b in st.body for n in ast.walk(b))
                used_after = False
                if not (rebinds or leaves or nested_use):
                    for e in st.iter.elts:
                        for b in st.body:
                            out.append(_Subst({v: e}).visit(copy.deepcopy(b)))
                    hit = True
                    continue
            if isinstance(st, ast.For) and isinstance(st.target, ast.Tuple) and all(isinstance(t_, ast.Name) for t_ in st.target.elts) and \
                    isinstance(st.iter, (ast.Tuple, ast.List)) and 2 <= len(st.iter.elts) <= 4 and not st.orelse and all(
                    isinstance(e, ast.Tuple) and len(e.elts) == len(st.target.elts) and all(path(x) for x in e.elts) for e in st.iter.elts):
                # `for a, b in ((self, other), (other, self)): BODY`: the same statements for each row
                vs = [t_.id for t_ in st.target.elts]
                rebinds = any(isinstance(n, ast.Name) and n.id in vs and isinstance(n.ctx, (ast.Store, ast.Del)) for b in st.body for n in ast.walk(b))
                leaves = any(isinstance(n, (ast.Break, ast.Continue)) for b in st.body for n in ast.walk(b))
                nested_use = any(isinstance(n, (ast.FunctionDef, ast.Lambda)) for b in st.body for n in ast.walk(b))
                if not (rebinds or leaves or nested_use):
                    for e in st.iter.elts:
                        for b in st.body:
                            out.append(_Subst(dict(zip(vs, e.elts))).visit(copy.deepcopy(b)))
                    hit = True
                    continue
            out.append(st)
        return out
    fnode.body = block(fnode.body)
    return hit


class Inliner(object):
    def __init__(self, index):
        self.index = index

    # -- which callee -------------------------------------------------------------------
    def helper_for(self, func, call, local_defs):
        """The Func / FunctionDef of a *new* helper called by ``call`` from ``func``, or None."""
        ix = self.index
        known = ix.known_functions
        if known is None:
            return None
        f = call.func
        if isinstance(f, ast.Name):
            if f.id in local_defs:
                key = '%s.<locals>.%s' % (func.qualname, f.id)
                return None if key in known else ('local', local_defs[f.id], None)
            q = '%s.%s' % (func.module.name, f.id)
            h = ix.functions.get(q)
            if h is not None and q not in known:
                return ('func', h.raw_node, None)
            return None
        if isinstance(f, ast.Attribute) and isinstance(f.value, ast.Name) and func.cls is not None:
            recv = f.value.id
            cls = func.cls
            if recv in (func.self_name, 'cls', 'self', cls.name):
                m = cls.members.get(f.attr)
                h = m.func if m is not None else None
                if h is None or h.cls is not cls:
                    return None
                if h.qualname in known or h.raw_node is func.raw_node:
                    return None
                static = h.has_decorator('staticmethod')
                return ('method', h.raw_node, None if static else recv)
        return None

    # -- one call -----------------------------------------------------------------------
    def _bind(self, hnode, call, recv):
        """(mapping param->expr, prelude statements) or None when the call cannot be bound."""
        a = hnode.args
        if a.vararg or a.posonlyargs:
            return None
        kwname = a.kwarg.arg if a.kwarg else None
        if kwname is not None:
            # `**kw` is supported when the helper only passes it on (every use is `**kw` in a call)
            uses = [n for n in ast.walk(ast.Module(body=hnode.body, type_ignores=[])) if isinstance(n, ast.Name) and n.id == kwname]
            passed = [k.value for c in ast.walk(ast.Module(body=hnode.body, type_ignores=[])) if isinstance(c, ast.Call)
                      for k in c.keywords if k.arg is None and isinstance(k.value, ast.Name) and k.value.id == kwname]
            if len(uses) != len(passed) or not all(any(u is p_ for p_ in passed) for u in uses):
                return None
        params = [x.arg for x in a.args]
        defaults = dict(zip(params[len(params) - len(a.defaults):], a.defaults))
        for k, d in zip(a.kwonlyargs, a.kw_defaults):
            params.append(k.arg)
            if d is not None:
                defaults[k.arg] = d
        given = {}
        pos = list(call.args)
        if any(isinstance(x, ast.Starred) for x in pos) or any(k.arg is None for k in call.keywords):
            return None
        names = list(params)
        if recv is not None:
            if not names:
                return None
            given[names[0]] = ast.Name(id=recv, ctx=ast.Load())
            names = names[1:]
        if len(pos) > len(names):
            return None
        for n, e in zip(names, pos):
            given[n] = e
        extra = []
        for k in call.keywords:
            if k.arg not in params and kwname is not None and k.arg not in given:
                extra.append(k)
                continue
            if k.arg not in params or k.arg in given:
                return None
            given[k.arg] = k.value
        for p in params:
            if p not in given:
                if p not in defaults:
                    return None
                given[p] = defaults[p]
        assigned = _assigned_names(ast.Module(body=hnode.body, type_ignores=[]))
        mapping, prelude = {}, []
        for p, e in given.items():
            uses = sum(1 for n in ast.walk(ast.Module(body=hnode.body, type_ignores=[])) if isinstance(n, ast.Name) and n.id == p)
            if p not in assigned and (_simple_arg(e) or uses <= 1):
                mapping[p] = e
            else:
                prelude.append(ast.copy_location(ast.Assign(targets=[ast.Name(id=p, ctx=ast.Store())], value=copy.deepcopy(e)), call))
        if kwname is not None:
            mapping['**' + kwname] = extra
        return mapping, prelude

    def expr_body(self, hnode):
        body = _strip_doc(hnode.body)
        if len(body) == 1 and isinstance(body[0], ast.Return) and body[0].value is not None:
            return body[0].value
        return None

    def inline_stmt(self, func, st, local_defs, depth):
        """Statements replacing ``st`` (one helper call inlined), or None if nothing was done.  Every successful inlining is
        counted per helper (``index.inlined_calls``), so that a helper whose every call was inlined is not analysed a second
        time on its own (see ``Index.helper_status``)."""
        self._last = None
        rep = self._inline_stmt(func, st, local_defs, depth)
        if rep is not None and self._last is not None:
            cnt = self.index.inlined_calls
            cnt[id(self._last)] = cnt.get(id(self._last), 0) + 1
        return rep

    def _inline_stmt(self, func, st, local_defs, depth):
        own = self._own_exprs(st)
        calls = [c for e in own for c in ast.walk(e) if isinstance(c, ast.Call) and self.helper_for(func, c, local_defs)]
        if not calls:
            return None
        call = calls[0]
        kind, hnode, recv = self.helper_for(func, call, local_defs)
        self._last = hnode
        decos = [unparse_(d).split('.')[-1] for d in hnode.decorator_list]
        if 'contextmanager' in decos and all(d in ('contextmanager', 'staticmethod', 'classmethod') for d in decos):
            # `with cm(args): BODY` with a new @contextmanager helper: the helper's body with BODY in the place of its `yield`
            if isinstance(st, (ast.With,)) and len(st.items) == 1 and st.items[0].context_expr is call:
                bound = self._bind(hnode, call, recv)
                ys = [x for x in ast.walk(ast.Module(body=hnode.body, type_ignores=[])) if isinstance(x, (ast.Yield, ast.YieldFrom))]
                if bound is not None and len(ys) == 1 and isinstance(ys[0], ast.Yield):
                    mapping, prelude = bound
                    body = [_Subst(mapping).visit(copy.deepcopy(s)) for s in _strip_doc(hnode.body)]
                    done = [False]
                    target = st.items[0].optional_vars

                    def block(stmts):
                        out = []
                        for x in stmts:
                            if isinstance(x, ast.Expr) and isinstance(x.value, ast.Yield) and not done[0]:
                                done[0] = True
                                if target is not None:
                                    val = x.value.value if x.value.value is not None else ast.Constant(value=None)
                                    out.append(ast.copy_location(ast.Assign(targets=[copy.deepcopy(target)], value=val), st))
                                out.extend(st.body)
                                continue
                            for fld in ('body', 'orelse', 'finalbody'):
                                seq = getattr(x, fld, None)
                                if isinstance(seq, list) and seq and isinstance(seq[0], ast.stmt) and not isinstance(x, (ast.FunctionDef, ast.ClassDef)):
                                    setattr(x, fld, block(seq))
                            if isinstance(x, ast.Try):
                                for h in x.handlers:
                                    h.body = block(h.body)
                            out.append(x)
                        return out
                    new_body = block(body)
                    if done[0] and not any(isinstance(x, (ast.Yield, ast.YieldFrom)) for y in new_body for x in ast.walk(y)
                                           if not any(x is z for b_ in st.body for z in ast.walk(b_))):
                        for y in new_body:
                            ast.fix_missing_locations(y)
                        return list(prelude) + new_body
            return None
        if any(isinstance(d, ast.Name) and d.id not in ('staticmethod', 'classmethod') or
               not isinstance(d, ast.Name) for d in hnode.decorator_list):
            return None
        if _has_yield(hnode):
            # `for x in gen(...): BODY` with a new generator function: its body with BODY spliced in at every yield
            if isinstance(st, ast.For) and st.iter is call and not st.orelse:
                bound = self._bind(hnode, call, recv)
                if bound is not None:
                    return _splice_generator(st, hnode, bound[0], bound[1])
            # `sorted(gen(...), key=...)`, `sum(gen(...))`: an eager consumer as part of a simple statement - the generator's
            # values are collected into a temporary list first (same values, same order, all of them)
            if isinstance(st, (ast.Assign, ast.Expr, ast.Return, ast.AugAssign)) and not _in_deferred_context(st, call):
                par = None
                for x in ast.walk(st):
                    # f(*gen(...)): star-unpacking takes every value at once
                    if isinstance(x, ast.Call) and any(isinstance(a_, ast.Starred) and a_.value is call for a_ in x.args):
                        par = x
                        break
                    if isinstance(x, ast.Call) and x.args and x.args[0] is call and isinstance(x.func, ast.Name) and \
                            x.func.id in ('sorted', 'set', 'frozenset', 'sum', 'max', 'min', 'dict', 'OrderedDict') and \
                            not (isinstance(st, ast.Assign) and st.value is x and x.func.id in ('list', 'tuple')):
                        par = x
                if par is not None:
                    bound = self._bind(hnode, call, recv)
                    if bound is not None:
                        tmp = '_gen_%s_%d' % (hnode.name.strip('_'), getattr(call, 'lineno', 0))
                        loop = ast.For(target=ast.Name(id=tmp + '_item', ctx=ast.Store()), iter=call, orelse=[],
                                       body=[ast.Expr(value=ast.Call(func=ast.Attribute(value=ast.Name(id=tmp, ctx=ast.Load()), attr='append', ctx=ast.Load()),
                                                                     args=[ast.Name(id=tmp + '_item', ctx=ast.Load())], keywords=[]))])
                        ast.copy_location(loop, st)
                        ast.fix_missing_locations(loop)
                        spliced = _splice_generator(loop, hnode, bound[0], bound[1])
                        if spliced is not None:
                            spliced = _fold_item(spliced, tmp + '_item')
                            init = ast.copy_location(ast.Assign(targets=[ast.Name(id=tmp, ctx=ast.Store())], value=ast.List(elts=[], ctx=ast.Load())), st)
                            out = [init] + spliced + [self._replace(st, call, ast.Name(id=tmp, ctx=ast.Load()))]
                            for x in out:
                                ast.fix_missing_locations(x)
                            return out
            # `xs = list(gen(...))`: the generator's body appending to a new list
            if isinstance(st, ast.Assign) and len(st.targets) == 1 and isinstance(st.targets[0], ast.Name) and \
                    isinstance(st.value, ast.Call) and isinstance(st.value.func, ast.Name) and st.value.func.id in ('list', 'tuple') \
                    and len(st.value.args) == 1 and st.value.args[0] is call and not st.value.keywords:
                bound = self._bind(hnode, call, recv)
                if bound is not None:
                    tgt = st.targets[0].id
                    if tgt in {n.id for n in ast.walk(hnode) if isinstance(n, ast.Name)}:
                        return None
                    loop = ast.For(target=ast.Name(id='_item_%s' % tgt, ctx=ast.Store()), iter=call, orelse=[],
                                   body=[ast.Expr(value=ast.Call(func=ast.Attribute(value=ast.Name(id=tgt, ctx=ast.Load()), attr='append', ctx=ast.Load()),
                                                                 args=[ast.Name(id='_item_%s' % tgt, ctx=ast.Load())], keywords=[]))])
                    ast.copy_location(loop, st)
                    ast.fix_missing_locations(loop)
                    spliced = _splice_generator(loop, hnode, bound[0], bound[1])
                    if spliced is None:
                        return None
                    spliced = _fold_item(spliced, '_item_%s' % tgt)
                    init = ast.copy_location(ast.Assign(targets=[ast.Name(id=tgt, ctx=ast.Store())], value=ast.List(elts=[], ctx=ast.Load())), st)
                    out = [init] + spliced
                    if st.value.func.id == 'tuple':
                        out.append(ast.copy_location(ast.Assign(targets=[ast.Name(id=tgt, ctx=ast.Store())],
                                                                value=ast.Call(func=ast.Name(id='tuple', ctx=ast.Load()), args=[ast.Name(id=tgt, ctx=ast.Load())], keywords=[])), st))
                    for x in out:
                        ast.fix_missing_locations(x)
                    return out
            return None
        if any(isinstance(n, ast.Call) and n is not call and self.helper_for(func, n, local_defs) and
               self.helper_for(func, n, local_defs)[1] is hnode for n in ast.walk(ast.Module(body=hnode.body, type_ignores=[]))):
            return None     # recursive
        bound = self._bind(hnode, call, recv)
        if bound is None:
            return None
        mapping, prelude = bound
        ebody = self.expr_body(hnode)
        taken = {n.id for n in ast.walk(func.raw_node) if isinstance(n, ast.Name)} | set(mapping)
        for e_ in mapping.values():
            for x_ in (e_ if isinstance(e_, list) else [e_]):
                taken |= {n.id for n in ast.walk(x_) if isinstance(n, ast.Name)}
        if ebody is not None and not prelude:
            new_e = _Subst(mapping).visit(_fresh_comprehension_vars(copy.deepcopy(ebody), taken))
            return [self._replace(st, call, new_e)]
        # a call inside a comprehension / lambda / conditional expression is evaluated per element (or not at all): only an
        # expression body can be substituted in place there, statements cannot be hoisted in front of the statement
        if _in_deferred_context(st, call):
            return None
        body = [_fresh_comprehension_vars(copy.deepcopy(s), taken) for s in _strip_doc(hnode.body)]
        # the same helper inlined a second time into one caller: its locals are other variables than those of the first copy
        seen = self.__dict__.setdefault('_copies', {})
        k = (id(func), id(hnode))
        seen[k] = seen.get(k, 0) + 1
        if seen[k] > 1:
            own = _assigned_names(ast.Module(body=body, type_ignores=[])) - set(mapping)
            ren = {}
            for nm in sorted(own):
                new_nm = '%s_%d' % (nm, seen[k])
                while new_nm in taken:
                    new_nm += '_'
                ren[nm] = new_nm
            for s_ in body + prelude:
                for n_ in ast.walk(s_):
                    if isinstance(n_, ast.Name) and n_.id in ren:
                        n_.id = ren[n_.id]
            mapping = {ren.get(p_, p_): e_ for p_, e_ in mapping.items()}
        body = [_Subst(mapping).visit(s) for s in body]
        if _returns_outside_guards(body):
            if isinstance(st, ast.Return) and st.value is call:
                return prelude + body           # `return helper(...)`: the helper's returns are the caller's returns
            # a search loop that returns from inside: break with the value in a temporary (see _loop_returns_to_breaks)
            # (off unless VERIF_LOOP_INLINE is set: the rules read a helper that searches with a loop better as a call than as
            # a loop-with-temporary spliced into the caller - see DESIGN.md section 24, C03-rf4p1)
            import os
            as_test = isinstance(st, ast.If) and (st.test is call or (isinstance(st.test, ast.UnaryOp) and isinstance(st.test.op, ast.Not)
                                                                    and st.test.operand is call))
            if not os.environ.get('VERIF_LOOP_INLINE') and not as_test:
                return None     # (a predicate used directly as an `if` test is spliced: its outcomes select the arms of that if)
            alt = _loop_returns_to_breaks(copy.deepcopy(body), '_ret_%s_%d' % (hnode.name.strip('_'), getattr(call, 'lineno', 0)))
            if alt is None or _returns_outside_guards(alt):
                return None
            body = alt
        if isinstance(st, ast.Expr) and st.value is call:
            def make(v):
                return [ast.copy_location(ast.Expr(value=v), v)] if isinstance(v, ast.Call) else []
            return prelude + (_rewrite_returns(body, make) or [ast.copy_location(ast.Pass(), st)])
        if isinstance(st, ast.Return) and st.value is call:
            return prelude + body
        if isinstance(st, ast.Assign) and st.value is call:
            tg = st.targets

            def make(v):
                val = v if v is not None else ast.Constant(value=None)
                if len(tg) == 1 and isinstance(tg[0], ast.Name) and isinstance(val, ast.Name) and val.id == tg[0].id:
                    return []       # `x = helper(...)` whose helper returns its own `x`: nothing to bind
                return [ast.copy_location(ast.Assign(targets=copy.deepcopy(tg), value=val), st)]
            new = _rewrite_returns(body, make)
            if not _ends_with_return(body):
                new = new + make(None)
            return prelude + new
        # `if helper(...): S else: T` (or `if not helper(...)`): S / T are moved to the helper's return sites, so that which of
        # them runs stays tied to the path taken through the helper (a temporary flag would lose that for path rules)
        if isinstance(st, ast.If):
            neg = isinstance(st.test, ast.UnaryOp) and isinstance(st.test.op, ast.Not) and st.test.operand is call
            if st.test is call or neg:
                yes, no = (st.orelse, st.body) if neg else (st.body, st.orelse)

                def make(v, yes=yes, no=no):
                    if v is None or (isinstance(v, ast.Constant) and not v.value):
                        return [copy.deepcopy(x) for x in no]
                    if isinstance(v, ast.Constant) and v.value:
                        return [copy.deepcopy(x) for x in yes]
                    return [ast.copy_location(ast.If(test=v, body=[copy.deepcopy(x) for x in yes] or [ast.Pass()],
                                                     orelse=[copy.deepcopy(x) for x in no]), st)]
                new = _rewrite_returns(body, make)
                if not _ends_with_return(body):
                    new = new + make(None)
                return prelude + (new or [ast.copy_location(ast.Pass(), st)])
        # embedded call: hoist into a temporary (only for simple statements, whose sub-expressions are evaluated once, in order)
        if isinstance(st, (ast.Assign, ast.AugAssign, ast.Expr, ast.Return, ast.If, ast.Assert, ast.For)):
            # (the iterable of a for loop is evaluated once, before the loop)
            tmp = '_inl_%s_%d' % (hnode.name.strip('_'), getattr(call, 'lineno', 0))

            def make(v):
                val = v if v is not None else ast.Constant(value=None)
                return [ast.copy_location(ast.Assign(targets=[ast.Name(id=tmp, ctx=ast.Store())], value=val), st)]
            new = _rewrite_returns(body, make)
            if not _ends_with_return(body):
                new = new + make(None)
            return prelude + new + [self._replace(st, call, ast.Name(id=tmp, ctx=ast.Load()))]
        return None

    @staticmethod
    def _own_exprs(st):
        """Expressions evaluated by the statement itself (not by the statements nested in it)."""
        if isinstance(st, (ast.If, ast.While)):
            return [st.test]
        if isinstance(st, (ast.For, ast.AsyncFor)):
            return [st.iter]
        if isinstance(st, (ast.With, ast.AsyncWith)):
            return [i.context_expr for i in st.items]
        if isinstance(st, (ast.Try, ast.FunctionDef, ast.AsyncFunctionDef, ast.ClassDef)):
            return []
        return [st]

    @staticmethod
    def _replace(st, call, new_e):
        class R(ast.NodeTransformer):
            def visit_Call(self, n):
                if n is call:
                    return ast.copy_location(new_e, n)
                return self.generic_visit(n)
        # shallow copy of the statement so that nested bodies stay shared (they are expanded separately)
        return R().visit(st)

    def _uncomp_for_helpers(self, func, stmts, local_defs, changed):
        """`xs = [E for a in A for b in helper(a)]` where `helper` is a new helper with statements of its own (it cannot be
        substituted into the comprehension): written out as the loops it abbreviates - `xs = []; for a in A: for b in helper(a):
        xs.append(E)` - so that the helper can be spliced where it is called.  Same evaluation order, same list."""
        out = []
        for st in stmts:
            v = st.value if isinstance(st, ast.Assign) and len(st.targets) == 1 and isinstance(st.targets[0], ast.Name) else None
            if isinstance(v, ast.ListComp) and not any(isinstance(x, (ast.ListComp, ast.GeneratorExp, ast.SetComp, ast.DictComp, ast.Lambda))
                                                      for x in ast.walk(v) if x is not v):
                calls = [c for c in ast.walk(v) if isinstance(c, ast.Call) and self.helper_for(func, c, local_defs)]
                hard = [c for c in calls if self.expr_body(self.helper_for(func, c, local_defs)[1]) is None]
                tgt = st.targets[0].id
                if hard and tgt not in {n.id for n in ast.walk(v) if isinstance(n, ast.Name)}:
                    inner = [ast.Expr(value=ast.Call(func=ast.Attribute(value=ast.Name(id=tgt, ctx=ast.Load()), attr='append', ctx=ast.Load()),
                                                     args=[v.elt], keywords=[]))]
                    for g in reversed(v.generators):
                        for cnd in reversed(g.ifs):
                            inner = [ast.If(test=cnd, body=inner, orelse=[])]
                        inner = [ast.For(target=g.target, iter=g.iter, body=inner, orelse=[])]
                    new = [ast.Assign(targets=[ast.Name(id=tgt, ctx=ast.Store())], value=ast.List(elts=[], ctx=ast.Load()))] + inner
                    for n_ in new:
                        ast.copy_location(n_, st)
                        ast.fix_missing_locations(n_)
                    out.extend(new)
                    changed[0] = True
                    continue
            out.append(st)
        return out

    def _sink_search_result(self, func, stmts, local_defs):
        """The "search helper + driver" shape

            found = _search(args)            # new helper: a loop that returns a tuple from inside, None after the loop
            if found is None: LEAVE          # LEAVE ends in return / break / continue / raise
            a, b, c = found
            REST

        is the loop of the helper with `a, b, c = <the tuple>; REST; break` at its return site and LEAVE in its else clause: the
        search and what is done with its result read as one loop again (which is what the rules know).  Only when REST has no
        break / continue of its own, the helper fits `_loop_returns_to_breaks`, every return inside its loop is a tuple display
        and the one after it is None (or missing)."""
        for i in range(len(stmts) - 1):
            st, nxt = stmts[i], stmts[i + 1]
            if not (isinstance(st, ast.Assign) and len(st.targets) == 1 and isinstance(st.targets[0], ast.Name) and isinstance(st.value, ast.Call)):
                continue
            h = self.helper_for(func, st.value, local_defs)
            if not h:
                continue
            kind, hnode, recv = h
            x = st.targets[0].id
            if not (isinstance(nxt, ast.If) and not nxt.orelse and isinstance(nxt.test, ast.Compare) and len(nxt.test.ops) == 1
                    and isinstance(nxt.test.ops[0], ast.Is) and isinstance(nxt.test.left, ast.Name) and nxt.test.left.id == x
                    and isinstance(nxt.test.comparators[0], ast.Constant) and nxt.test.comparators[0].value is None):
                continue
            leave = nxt.body
            if not leave or not isinstance(leave[-1], (ast.Return, ast.Break, ast.Continue, ast.Raise)):
                continue
            rest = stmts[i + 2:]
            if any(isinstance(n, (ast.Break, ast.Continue)) for r in rest for n in ast.walk(r)
                   if not any(isinstance(p_, (ast.For, ast.While)) and any(n is z for z in ast.walk(p_)) for r2 in rest for p_ in ast.walk(r2))):
                continue
            if hnode.decorator_list or _has_yield(hnode):
                continue
            bound = self._bind(hnode, st.value, recv)
            if bound is None:
                continue
            mapping, prelude = bound
            taken = {n.id for n in ast.walk(func.raw_node) if isinstance(n, ast.Name)} | set(mapping)
            body = [_fresh_comprehension_vars(copy.deepcopy(s_), taken) for s_ in _strip_doc(hnode.body)]
            body = [_Subst(mapping).visit(s_) for s_ in body]
            alt = _loop_returns_to_breaks(body, x)
            if alt is None or len(alt) < 2 or not isinstance(alt[-1], ast.Return):
                continue
            loop = alt[-2]
            if not isinstance(loop, (ast.For, ast.While)):
                continue
            # the value after the loop must be None, every value in the loop a tuple display
            tail_sets = [a_ for a_ in loop.orelse if isinstance(a_, ast.Assign) and unparse_(a_.targets[0]) == x]
            if len(tail_sets) != 1 or not (isinstance(tail_sets[0].value, ast.Constant) and tail_sets[0].value.value is None):
                continue
            ok = [True]

            def splice(seq):
                out = []
                j = 0
                while j < len(seq):
                    s_ = seq[j]
                    if isinstance(s_, ast.Assign) and unparse_(s_.targets[0]) == x and j + 1 < len(seq) and isinstance(seq[j + 1], ast.Break):
                        if not isinstance(s_.value, ast.Tuple):
                            ok[0] = False
                        out.append(s_)
                        for r in rest:
                            r2 = copy.deepcopy(r)
                            # `a, b, c = found` right after `found = (a, b, c)`: nothing to bind
                            if isinstance(r2, ast.Assign) and len(r2.targets) == 1 and isinstance(r2.targets[0], ast.Tuple) and \
                                    isinstance(r2.value, ast.Name) and r2.value.id == x and isinstance(s_.value, ast.Tuple) and \
                                    len(r2.targets[0].elts) == len(s_.value.elts):
                                pairs = [(t_, v_) for t_, v_ in zip(r2.targets[0].elts, s_.value.elts) if unparse_(t_) != unparse_(v_)]
                                for t_, v_ in pairs:
                                    out.append(ast.copy_location(ast.Assign(targets=[copy.deepcopy(t_)], value=copy.deepcopy(v_)), r2))
                                continue
                            out.append(r2)
                        out.append(seq[j + 1])
                        j += 2
                        continue
                    for fld in ('body', 'orelse', 'finalbody'):
                        sub = getattr(s_, fld, None)
                        if isinstance(sub, list) and sub and isinstance(sub[0], ast.stmt) and not isinstance(s_, (ast.For, ast.While, ast.FunctionDef, ast.ClassDef)):
                            setattr(s_, fld, splice(sub))
                    if isinstance(s_, ast.Try):
                        for hh in s_.handlers:
                            hh.body = splice(hh.body)
                    out.append(s_)
                    j += 1
                return out
            loop.body = splice(loop.body)
            if not ok[0]:
                continue
            loop.orelse = [a_ for a_ in loop.orelse if a_ is not tail_sets[0]] + [copy.deepcopy(l_) for l_ in leave]
            new = list(stmts[:i]) + list(prelude) + list(alt[:-2]) + [loop]
            for n_ in new:
                ast.fix_missing_locations(n_)
            cnt = self.index.inlined_calls
            cnt[id(hnode)] = cnt.get(id(hnode), 0) + 1
            return new
        return None

    # -- whole function ------------------------------------------------------------------------
    def expand(self, func):
        node = func.raw_node
        if self.index.known_functions is None:
            return node
        new = copy.deepcopy(node)
        changed = [_filter_loops(new)]
        if _unroll_literal_loops(new):
            changed[0] = True

        def block(stmts, local_defs, depth):
            local_defs = dict(local_defs)
            for s in stmts:
                if isinstance(s, (ast.FunctionDef, ast.AsyncFunctionDef)):
                    local_defs[s.name] = s
            stmts = self._uncomp_for_helpers(func, list(stmts), local_defs, changed)
            sunk = self._sink_search_result(func, list(stmts), local_defs) if depth < MAX_DEPTH else None
            if sunk is not None:
                changed[0] = True
                stmts = sunk
            out = []
            for st in stmts:
                todo = [st]
                guard = 0
                while todo:
                    cur = todo.pop(0)
                    guard += 1
                    rep = self.inline_stmt(func, cur, local_defs, depth) if depth < MAX_DEPTH and guard < 40 else None
                    if rep is not None:
                        changed[0] = True
                        todo = list(rep) + todo
                        continue
                    for fld in ('body', 'orelse', 'finalbody'):
                        seq = getattr(cur, fld, None)
                        # nested functions (closures such as decorator wrappers) are expanded too; classes are not
                        if isinstance(seq, list) and seq and isinstance(seq[0], ast.stmt) and not isinstance(cur, (ast.ClassDef,)):
                            setattr(cur, fld, block(seq, local_defs, depth))
                    if isinstance(cur, ast.Try):
                        for h in cur.handlers:
                            h.body = block(h.body, local_defs, depth)
                    out.append(cur)
            return out
        new.body = block(new.body, {}, 0)
        if not changed[0]:
            return node
        ast.fix_missing_locations(new)
        _renumber(new)
        return new


def _renumber(fnode):
    """After inlining, statements carry the line numbers of the helpers they came from.  Rules order statements by ``lineno``,
    so give every statement (and the expressions it owns) a virtual line number in source order of the expanded function;
    the real line is kept in ``_orig_lineno`` for reports (see util.where)."""
    counter = [getattr(fnode, 'lineno', 1)]

    def own_exprs(st):
        for name, val in ast.iter_fields(st):
            vals = val if isinstance(val, list) else [val]
            for v in vals:
                if isinstance(v, ast.AST) and not isinstance(v, (ast.stmt, ast.ExceptHandler)):
                    for x in ast.walk(v):
                        yield x

    def visit(st):
        counter[0] += 1
        line = counter[0]
        if hasattr(st, 'lineno'):
            st._orig_lineno = st.lineno
        st.lineno = line
        st.end_lineno = line
        for x in own_exprs(st):
            if hasattr(x, 'lineno'):
                x._orig_lineno = x.lineno
                x.lineno = line
                x.end_lineno = line
        for name, val in ast.iter_fields(st):
            if isinstance(val, list):
                for v in val:
                    if isinstance(v, (ast.stmt, ast.ExceptHandler)):
                        visit(v)
        return line
    for st in fnode.body:
        visit(st)
    # end_lineno of compound statements: the last line of their last child
    def close(st):
        last = st.lineno
        for name, val in ast.iter_fields(st):
            if isinstance(val, list):
                for v in val:
                    if isinstance(v, (ast.stmt, ast.ExceptHandler)):
                        last = max(last, close(v))
        st.end_lineno = last
        return last
    for st in fnode.body:
        close(st)
