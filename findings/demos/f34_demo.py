"""F34 (C04): a slice selection evaluated with a view that contains a negative integer is all-False, whatever the full mask says."""
import numpy as np
from glue.core import Data
from glue.core.subset import SliceSubsetState

d = Data(x=np.arange(12).reshape(3, 4).astype(float))
s = SliceSubsetState(d, [slice(1, 3), slice(0, 4, 2)])
full = d.get_mask(s)
for view in [(-1,), (-1, slice(None)), (2,), (slice(None), -2), (slice(None), 2), (-1, -2), (0, -1), (-3, 0)]:
    got = np.asarray(d.get_mask(s, view=view))
    assert got.shape == full[view].shape, (view, got.shape)
    assert np.array_equal(full[view], got), (view, full[view], got)
print('OK')
