from glue.core import Data, DataCollection
from glue.core.session import Session
from glue.core.command import ApplySubsetState
d = Data(x=[1, 2, 3], label='d')
dc = DataCollection([d])
s = Session(data_collection=dc)
stack = s.command_stack
before = (len(dc.subset_groups), len(d.subsets), list(s.edit_subset_mode.edit_subset))
stack.do(ApplySubsetState(data_collection=dc, subset_state=d.id['x'] > 1))
after = (len(dc.subset_groups), len(d.subsets))
stack.undo()
undone = (len(dc.subset_groups), len(d.subsets), list(s.edit_subset_mode.edit_subset))
print(before, after, undone)
assert undone == before, 'undo did not restore groups / edit subset'
stack.redo()
print(len(dc.subset_groups), len(d.subsets), d.subsets[0].to_mask() if d.subsets else None)
assert len(dc.subset_groups) == 1 and len(d.subsets) == 1 and list(d.subsets[0].to_mask()) == [False, True, True]
