"""F28 (C08): the 'is the polygon closed' test compares vy[:-1] (a slice) with vy[0]: for a closed polygon it is never true
with plain lists (the start vertex is counted twice) and raises ValueError once the vertices are numpy numbers, e.g. after
move_to: a closed polygon cannot be moved twice, and its reported centre is unavailable."""
import numpy as np
from glue.core.roi import PolygonalROI

r = PolygonalROI(vx=[0, 1, 1, 0, 0], vy=[0, 0, 1, 1, 0])      # closed: the first vertex is repeated
assert np.allclose(r.mean(), (0.5, 0.5)), r.mean()              # "do not include the starting vertex twice"
r.move_to(2, 3)
print('centre after the first move:', r.center())
r.move_to(5, 5)
assert np.allclose(r.center(), (5, 5)), r.center()
assert r.contains(5.2, 5.2) and not r.contains(2, 3)
print('OK')
