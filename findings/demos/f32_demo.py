"""F32 (C19): a session saved by reference to a file that loads as two 1-d tables cannot be restored: the load log counts
the pixel components of both tables (2 = ndim * 2) and asks for world components that were never there."""
import os, tempfile
import numpy as np
from astropy.io import fits
from astropy.table import Table
from glue.core import DataCollection
from glue.core.data_factories import load_data
from glue.core.state import GlueSerializer, GlueUnSerializer

tmp = tempfile.mkdtemp(dir='/var/tmp')
path = os.path.join(tmp, 'two_tables.fits')
h = fits.HDUList([fits.PrimaryHDU(),
                  fits.table_to_hdu(Table({'a': [1., 2., 3.]})),
                  fits.table_to_hdu(Table({'b': [4., 5.]}))])
h.writeto(path)
data = load_data(path)
assert len(data) == 2, data
dc = DataCollection(data)
text = GlueSerializer(dc, include_data=False).dumps()
dc2 = GlueUnSerializer.loads(text).object('__main__')
for d, e in zip(dc, dc2):
    assert [c.label for c in d.components] == [c.label for c in e.components], ([c.label for c in d.components], [c.label for c in e.components])
    for c in d.main_components:
        assert np.array_equal(d[c], e[e.id[c.label]])
print('OK')
