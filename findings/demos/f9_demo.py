import numpy as np
from glue.core import Data
from glue.core.data_derived import IndexedData
d = Data(x=np.arange(24.).reshape(2, 3, 4), label='d')
i = IndexedData(d, (None, 1, None))
cid = i.main_components[0]
print(i.get_data(cid).shape)
h = i.compute_histogram([cid], range=[(0, 24)], bins=[3])
print(h, h.sum())
expected = np.histogram(d['x'][:, 1, :].ravel(), bins=3, range=(0, 24))[0]
assert list(h) == list(expected)
