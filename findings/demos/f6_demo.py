import numpy as np
from glue.core import Data
from glue.core.subset import RangeSubsetState
d = Data(x=[1., 2, 3, 4, 5, 6, 7, 8], label='d')
ineq = d.id['x'] > 2
print(d.get_mask(ineq))
ineq.right = 7
print(d.get_mask(ineq))
assert d.get_mask(ineq).sum() == 1, 'F6 setter stale'
r = RangeSubsetState(1, 2, d.id['x']) | RangeSubsetState(1, 2, d.id['x'])
print(d.get_mask(r))
r.move_to(6.5)
print(d.get_mask(r))
assert list(np.where(d.get_mask(r))[0]) == [5, 6], 'F6 move_to stale'
