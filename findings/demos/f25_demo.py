"""F25 (C15): for affine coordinates whose dependence pattern is not symmetric (permuted or triangular matrices - both
named in the property's quantifier) the broadcasting shortcuts change values:
 (a) permuted axes: the world attributes are constant along the axis they depend on;
 (b) triangular coupling: the world->pixel link ignores a world coordinate the pixel coordinate depends on."""
import numpy as np
from glue.core import Data, DataCollection
from glue.core.coordinates import AffineCoordinates

ok = True


def check(label, got, expected):
    global ok
    good = np.shape(got) == np.shape(expected) and np.allclose(got, expected)
    print('%-60s %s' % (label, 'ok' if good else 'WRONG'))
    ok = ok and good


for name, matrix in (('permuted', [[0, 2, 1], [3, 0, 2], [0, 0, 1]]), ('triangular', [[2, 1, 1], [0, 3, 2], [0, 0, 1]])):
    coords = AffineCoordinates(np.array(matrix, dtype=float))
    d = Data(x=np.arange(12.).reshape(3, 4), coords=coords)
    dc = DataCollection([d])
    py, px = np.meshgrid(np.arange(3.), np.arange(4.), indexing='ij')
    wx, wy = coords.pixel_to_world_values(px, py)
    # world attributes (numpy order: world_component_ids[0] is the last world axis)
    check('%s: world attribute 0 == transformation of the pixel grid' % name, d[d.world_component_ids[0]], wy)
    check('%s: world attribute 1 == transformation of the pixel grid' % name, d[d.world_component_ids[1]], wx)
    # world -> pixel links: evaluate the pixel attributes through the links from the world attributes
    from glue.core.component_link import CoordinateComponentLink
    for link in d.coordinate_links:
        if isinstance(link, CoordinateComponentLink):
            truth = {'World 0': wy, 'World 1': wx, 'Pixel Axis 0 [y]': py, 'Pixel Axis 1 [x]': px}[link.get_to_id().label]
            through = link.compute(d)
            check('%s: link %s' % (name, link), through, truth)
assert ok
print('OK')
