"""F24 (C14): a derived attribute defined by a user function, evaluated on a bare index-array / list view,
is not function(inputs)[view]: join_component_view explodes the view into separate indices."""
import numpy as np
from glue.core import Data
from glue.core.component_link import ComponentLink
from glue.core.component import DerivedComponent

d = Data(x=np.arange(12.).reshape(3, 4), y=np.ones((3, 4)))
from glue.core.component_id import ComponentID
s = ComponentID('s')
link = ComponentLink([d.id['x'], d.id['y']], s, using=lambda x, y: x + y)
d.add_component_link(link)
full = d[s]
for view in (np.array([0, 2]), [0, 2], np.array([True, False, True])):
    expected = full[view]
    got = d[s, view]
    print(type(view).__name__, np.shape(got), np.shape(expected))
    assert np.shape(got) == np.shape(expected) and np.all(got == expected), (view, got, expected)
print('OK')
