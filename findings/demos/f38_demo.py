import sys, os, json
sys.path.insert(0, os.getcwd())
import numpy as np
from glue.core import Data, DataCollection
from glue.core.state import GlueSerializer, GlueUnSerializer

d1 = Data(a=[1, 2, 3], label='d1')
d2 = Data(b=[3, 1, 1, 5], label='d2')
dc = DataCollection([d1, d2])
d1.join_on_key(d2, 'a', 'b')
state = d1.id['a'] > 1.5
want = d2.get_mask(state)
rec = json.loads(GlueSerializer(dc).dumps())
# the same session as protocol 3 wrote it: one identifier per side of a join
for name, r in rec.items():
    if isinstance(r, dict) and r.get('_type') == 'glue.core.data.Data':
        r['_protocol'] = 3
        r['_key_joins'] = [[k, v0[0], v1[0]] for k, v0, v1 in r['_key_joins']]
        r.pop('uuid', None); r.pop('primary_owner', None); r.pop('meta', None)
dc2 = GlueUnSerializer.loads(json.dumps(rec)).object('__main__')
e1, e2 = dc2[0], dc2[1]
try:
    got = e2.get_mask(e1.id['a'] > 1.5)
    ok = np.array_equal(got, want)
    print('restored join mask', got, 'expected', want)
except Exception as e:
    ok = False
    print('restored join raises', type(e).__name__, e)
sys.exit(0 if ok else 1)
