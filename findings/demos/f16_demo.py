import numpy as np
from glue.core import Data
d = Data(x=np.zeros((2, 3)), label='d')
e = Data(x=np.zeros(4), label='e')
print([c.label for c in d.pixel_component_ids], d.ndim)
d.update_values_from_data(e)
print([c.label for c in d.pixel_component_ids], d.ndim, [c.label for c in d.components])
assert len(d.pixel_component_ids) == d.ndim
for c in d.pixel_component_ids:
    d[c]
