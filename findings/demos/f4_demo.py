import numpy as np
from shapely.geometry import Point
from glue.core import DataCollection
from glue.core.data_region import RegionData
from glue.core.component import ExtendedComponent
from glue.core.coordinates import IdentityCoordinates
from glue.core.state import GlueSerializer, GlueUnSerializer
polys = np.array([Point(1, 1).buffer(1), Point(2, 2).buffer(1)])
d = RegionData(label='r', coords=IdentityCoordinates(n_dim=1), x=np.array([1., 2]), y=np.array([1., 2]))
d.add_component(ExtendedComponent(polys, center_comp_ids=[d.id['x'], d.id['y']]), 'geo')
dc = DataCollection([d])
s = GlueSerializer(dc, include_data=True).dumps()
dc2 = GlueUnSerializer.loads(s).object('__main__')
print(type(dc2[0]).__name__, dc2[0].coords, [c.label for c in dc2[0].world_component_ids])
assert dc2[0].coords is not None and len(dc2[0].world_component_ids) == 1
