import numpy as np
from glue.core import Data
from glue.core.subset import RoiSubsetState
from glue.core.roi import RectangularROI
d = Data(x=[1., 2, 3, 4, 5, 6], y=[1., 2, 3, 4, 5, 6], label='d')
r = RoiSubsetState(d.id['x'], d.id['y'], RectangularROI(0.5, 2.5, 0.5, 2.5))
c = r & (d.id['x'] > 0)
print(d.get_mask(c))
c.state1.move_to(5, 5)
got = d.get_mask(c)
print(got, 'fresh:', d.get_mask(c.copy()))
assert list(got) == list(d.get_mask(c.copy())), 'stale composite mask after moving the nested region'
