"""F30 (C10): a statistic along an axis, with a selection and a view that has a step: the minimal-sub-array shortcut is given
up but its slices still drive the padding of the result -> ValueError (views with positive steps are in the property's domain)."""
import numpy as np
from glue.core import Data

d = Data(x=np.arange(48.).reshape(6, 8))
state = d.id['x'] > 20
full = np.where(state.to_mask(d), d['x'], np.nan)
import warnings
warnings.simplefilter('ignore')
for view in ((slice(0, 6, 2), slice(None)), (slice(None), slice(0, 8, 3)), (slice(1, 6, 2), slice(2, 8, 2))):
    for axis in (0, 1):
        expected = np.nanmax(full[view], axis=axis)
        got = d.compute_statistic('maximum', d.id['x'], subset_state=state, axis=axis, view=view)
        assert np.shape(got) == np.shape(expected) and np.allclose(got, expected, equal_nan=True), (view, axis, got, expected)
print('OK')
