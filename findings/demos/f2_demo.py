import numpy as np
from glue.core import Data, DataCollection
from glue.core.state import GlueSerializer, GlueUnSerializer
from glue.core.subset import RoiSubsetStateNd, MultiOrState, MultiRangeSubsetState
from glue.core.roi import RectangularROI
from glue.core.parse import ParsedCommand, ParsedSubsetState
def rt(state_factory):
    d = Data(x=[1., 2, 3, 4], y=[1., 2, 3, 4], label='d')
    dc = DataCollection([d])
    sg = dc.new_subset_group(subset_state=state_factory(d), label='s')
    before = d.subsets[0].to_mask()
    s = GlueSerializer(dc, include_data=True).dumps()
    dc2 = GlueUnSerializer.loads(s).object('__main__')
    after = dc2[0].subsets[0].to_mask()
    return before, after, type(dc2.subset_groups[0].subset_state).__name__
ok = True
for name, fac in [('nd', lambda d: RoiSubsetStateNd(atts=[d.id['x'], d.id['y']], roi=RectangularROI(1.5, 3.5, 1.5, 3.5))),
            ('multior', lambda d: MultiOrState([d.id['x'] > 3, d.id['x'] < 2])),
            ('multirange', lambda d: MultiRangeSubsetState([(0, 1.5), (3.5, 5)], att=d.id['x'])),
            ('parsed', lambda d: ParsedSubsetState(ParsedCommand('{x} > 2', {'x': d.id['x']})))]:
    b, a, t = rt(fac)
    print(name, b, a, t)
    ok = ok and (a == b).all()
assert ok
