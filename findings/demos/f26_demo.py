"""F26 (C06/C13): undoing a selection command strips the grouped subsets of a dataset that joined the collection
after the command ran: the group still lists them, the dataset no longer carries them."""
import numpy as np
from glue.core import Data, DataCollection
from glue.core.session import Session
from glue.core.hub import Hub
from glue.core import command as cmd
from glue.core.subset import RangeSubsetState

d1 = Data(x=[1., 2., 3.], label='d1')
dc = DataCollection([d1])
session = Session(data_collection=dc, hub=dc.hub)
g0 = dc.new_subset_group(label='g0', subset_state=d1.id['x'] > 1)
session.edit_subset_mode.edit_subset = [g0]
stack = session.command_stack

stack.do(cmd.ApplySubsetState(data_collection=dc, subset_state=RangeSubsetState(0, 2, d1.id['x'])))
d2 = Data(x=[5., 6.], label='d2')
dc.append(d2)                      # joins after the command ran, and gets one subset for g0
assert len(d2.subsets) == 1 and d2.subsets[0] in g0.subsets
stack.undo()

print('d2 carries', len(d2.subsets), 'subsets for', len(dc.subset_groups), 'group(s); the group lists', len(g0.subsets))
for d in dc:
    assert len(d.subsets) == len(dc.subset_groups), (d.label, len(d.subsets))
    for g, s in zip(dc.subset_groups, d.subsets):
        assert s in g.subsets
for g in dc.subset_groups:
    assert len(g.subsets) == len(dc), (g.label, len(g.subsets))
    for s in g.subsets:
        assert s in s.data.subsets, 'the group lists a subset its dataset does not carry'
print('OK')
