import sys, os
sys.path.insert(0, os.getcwd())
import numpy as np
from glue.core import Data, ComponentID
from glue.core.parse import ParsedCommand, ParsedComponentLink

d = Data(x=[1., 2., 3.], y=[10., 20., 30.], label='d')
cmd = ParsedCommand('{x} * 2 + {y}', {'x': d.id['x'], 'y': d.id['y']})
z = ComponentID('z')
d.add_component_link(ParsedComponentLink(z, cmd))
before = d[z].copy()
new = ComponentID('x_renamed')
d.update_id(d.id['x'], new)
try:
    after = d[z]
    ok = np.array_equal(before, after)
    print('after update_id:', after, 'expected', before)
except Exception as e:
    ok = False
    print('after update_id the derived attribute raises', type(e).__name__, e)
sys.exit(0 if ok else 1)
