import numpy as np
from glue.core import Data
from glue.core.subset import MaskSubsetState, RangeSubsetState

d = Data(x=[1., 2., 3., 4.])
m1 = MaskSubsetState(np.array([True, False, True, False]), d.pixel_component_ids)
m2 = MaskSubsetState(np.array([False, False, True, True]), d.pixel_component_ids)
before_ids = list(d.pixel_component_ids)
before = list(m1.cids)
comb = m1 | m2
_ = comb.attributes
print('operand cids before:', before, 'after:', list(comb.state1.cids))
print('data.pixel_component_ids before:', before_ids, 'after:', d.pixel_component_ids)
ok = list(comb.state1.cids) == before and list(d.pixel_component_ids) == before_ids
print('OK' if ok else 'DEFECT: asking a combined selection for its attributes extended the operand\'s (and the dataset\'s) id list')
raise SystemExit(0 if ok else 1)
