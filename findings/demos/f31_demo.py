"""F31 (C11): an n-n key join compares the concatenated raw bytes of the key columns, so equal key values stored with
different dtypes or string widths (int32 vs int64, 'U3' vs 'U6') never match ("whatever the storage dtypes or string widths")."""
import numpy as np
from glue.core import Data, DataCollection

d1 = Data(a=np.array([1, 2, 3], dtype=np.int32), s=np.array(['x', 'y', 'z']), v=[10., 20., 30.], label='d1')
d2 = Data(a=np.array([3, 1, 5], dtype=np.int64), s=np.array(['z', 'x', 'longer']), w=[1., 2., 3.], label='d2')
dc = DataCollection([d1, d2])
d1.join_on_key(d2, ('a', 's'), ('a', 's'))
state = d2.id['w'] > 0                   # every row of d2
mask = d1.get_mask(state)
print('rows of d1 whose (a, s) key occurs in d2:', mask)
assert list(mask) == [True, False, True], mask
mask = d2.get_mask(d1.id['v'] > 15)      # rows of d2 whose key is a key of d1 rows 1, 2 -> (3, 'z') only
assert list(mask) == [True, False, False], mask
print('OK')
