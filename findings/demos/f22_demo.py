"""F22 (C10): the upper end of a histogram range is nudged with the sign of the limit, so a negative upper
limit moves inwards and the values equal to it are dropped: the bin totals are smaller than the number of
in-range values (closed range)."""
import numpy as np
from glue.core import Data

d = Data(x=[-3., -2., -1.])
h = d.compute_histogram([d.id['x']], range=[(-3, -1)], bins=[2])
print('linear, range (-3, -1):', h)
assert h.sum() == 3, h

d = Data(x=[0.001, 0.01, 0.1])
h = d.compute_histogram([d.id['x']], range=[(0.001, 0.1)], bins=[2], log=[True])
print('log, range (0.001, 0.1):', h)
assert h.sum() == 3, h
print('OK')
