import numpy as np
from glue.core import Data, DataCollection
from glue.core.subset import RangeSubsetState
d = Data(x=[1., 2, 3, 4], y=[1., 2, 3, 4], label='d')
dc = DataCollection([d])
state = (d.id['x'] > 2) & (d.id['y'] < 5)
sg = dc.new_subset_group(subset_state=state)
print('before', d.subsets[0].to_mask())
d.update_components({d.id['x']: np.array([4., 3, 2, 1])})
got = d.subsets[0].to_mask()
print('after update_components', got)
assert list(got) == [True, True, False, False], 'F5 stale nested mask'
# F17
d2 = Data(x=[1., 2, 3, 4], label='d2')
s = d2.id['x'] > 2
print(d2.get_mask(s))
d2.add_component(np.array([4., 3, 2, 1]), d2.id['x'])
print(d2.get_mask(s))
assert list(d2.get_mask(s)) == [True, True, False, False], 'F17 stale after re-add'
