import sys, os
sys.path.insert(0, os.getcwd())
import numpy as np
from glue.core.roi import PolygonalROI
# a triangle rotated by half a turn about its centre is the point-reflected triangle, not the same triangle
p = PolygonalROI(vx=[0, 2, 0], vy=[0, 0, 1])
cx, cy = p.center()
want_x = [2 * cx - v for v in [0, 2, 0]]
want_y = [2 * cy - v for v in [0, 0, 1]]
p.rotate_to(np.pi)
ok = np.allclose(p.vx, want_x) and np.allclose(p.vy, want_y)
print('rotate_to(pi):', p.vx, p.vy, 'want', want_x, want_y, 'ok' if ok else 'WRONG')
pts = np.array([[1.2, 0.6], [0.2, 0.2]])
q = PolygonalROI(vx=[0, 2, 0], vy=[0, 0, 1])
q.rotate_to(np.pi)
inside = q.contains(pts[:, 0], pts[:, 1])
ok2 = bool(inside[0]) and not bool(inside[1])
print('contains after half turn:', inside, 'ok' if ok2 else 'WRONG')
sys.exit(0 if ok and ok2 else 1)
