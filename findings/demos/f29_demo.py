"""F29 (C04): the codes of a view of a 2-d categorical attribute cannot be computed (index_lookup is 1-d only),
so values / masks restricted to a view of such an attribute raise instead of equalling the full result indexed by the view."""
import numpy as np
from glue.core import Data
from glue.core.subset import CategorySubsetState

d = Data(c=np.array([['a', 'b', 'a'], ['c', 'a', 'b']]))
cid = d.id['c']
full_codes = d[cid].codes
state = CategorySubsetState(cid, [0])
full_mask = state.to_mask(d)
for view in ((slice(0, 1),), (slice(None), slice(1, 3)), (1, slice(None))):
    codes = d[cid, view].codes
    assert codes.shape == full_codes[view].shape and np.array_equal(codes, full_codes[view]), (view, codes)
    mask = state.to_mask(d, view)
    assert mask.shape == full_mask[view].shape and np.array_equal(mask, full_mask[view]), (view, mask)
print('OK')
