"""F27 (C06): a dataset appended and a group created inside one hub.delay_callbacks() block: the new group creates its
subsets for every dataset (including the appended one) and then still receives the delayed 'dataset added' message,
so the dataset gets a second subset for the same group."""
from glue.core import Data, DataCollection

d1 = Data(x=[1, 2, 3], label='d1')
dc = DataCollection([d1])
g0 = dc.new_subset_group(label='g0')
d2 = Data(x=[4, 5], label='d2')
with dc.hub.delay_callbacks():
    dc.append(d2)
    g1 = dc.new_subset_group(label='g1')
for d in dc:
    print(d.label, [s.label for s in d.subsets])
    assert len(d.subsets) == len(dc.subset_groups), (d.label, len(d.subsets), len(dc.subset_groups))
for g in dc.subset_groups:
    assert len(g.subsets) == len(dc), (g.label, len(g.subsets))
print('OK')
