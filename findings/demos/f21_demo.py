import numpy as np
from glue.core import Data, DataCollection
from glue.core.hub import HubListener
from glue.core.message import NumericalDataChangedMessage
d = Data(x=[1., 2, 3, 4], label='d')
dc = DataCollection([d])
g = dc.new_subset_group(subset_state=(d.id['x'] > 2) & (d.id['x'] < 10))
seen = []
class L(HubListener):
    def notify(self, msg):
        seen.append(d.subsets[0].to_mask().copy())
l = L(); dc.hub.subscribe(l, NumericalDataChangedMessage)
d.subsets[0].to_mask()
d.update_components({d.id['x']: np.array([4., 3, 2, 1])})
print('mask seen by the listener:', seen[0], ' after:', d.subsets[0].to_mask())
assert list(seen[0]) == [True, True, False, False], 'listener of NumericalDataChangedMessage saw the stale mask'
