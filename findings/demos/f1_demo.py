import numpy as np
from glue.core import Data
from glue.core.subset import RoiSubsetStateNd
from glue.core.roi import RectangularROI
from glue.core.parse import ParsedCommand, ParsedSubsetState
d = Data(x=[1., 2, 3, 4], y=[1., 2, 3, 4], label='d')
s = RoiSubsetStateNd(atts=[d.id['x'], d.id['y']], roi=RectangularROI(1.5, 3.5, 1.5, 3.5))
t = d.id['x'] > 0
print('nd', d.get_mask(s), d.get_mask(s & t))
p = ParsedSubsetState(ParsedCommand('{x} > 2', {'x': d.id['x']}))
print('parsed', d.get_mask(p), d.get_mask(p & t))
assert (d.get_mask(s & t) == d.get_mask(s)).all()
assert (d.get_mask(p & t) == d.get_mask(p)).all()
