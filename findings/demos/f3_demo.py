import numpy as np
from glue.core import Data, DataCollection
from glue.core.state import GlueSerializer, GlueUnSerializer
from glue.core.link_helpers import LinkAligned, LinkSameWithUnits
from glue.core.component import Component
def rt(make):
    d1 = Data(label='d1'); d1.add_component(Component(np.arange(6.).reshape(2, 3), units='m'), 'x')
    d2 = Data(label='d2'); d2.add_component(Component(np.arange(6.).reshape(2, 3) * 100, units='cm'), 'y')
    dc = DataCollection([d1, d2])
    dc.add_link(make(d1, d2))
    before = d1[d2.id['y']] if make is mk2 else d1[d2.pixel_component_ids[0]]
    s = GlueSerializer(dc, include_data=True).dumps()
    dc2 = GlueUnSerializer.loads(s).object('__main__')
    e1, e2 = dc2
    after = e1[e2.id['y']] if make is mk2 else e1[e2.pixel_component_ids[0]]
    print(type(dc2.external_links[0]).__name__ if dc2.external_links else None, np.array_equal(before, after))
    assert np.array_equal(before, after)
mk1 = lambda d1, d2: LinkAligned(d1, d2)
mk2 = lambda d1, d2: LinkSameWithUnits(d1.id['x'], d2.id['y'])
for mk in (mk1, mk2):
    try:
        rt(mk)
    except Exception as e:
        print('FAIL', type(e).__name__, str(e)[:100])
