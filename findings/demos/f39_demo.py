import sys, os
sys.path.insert(0, os.getcwd())
import numpy as np
from glue.core import Data
from glue.core.subset import MultiOrState

d = Data(x=[1., 2., 3., 4., 5.])
a, b, c = d.id['x'] < 1.5, d.id['x'] > 4.5, (d.id['x'] > 2.5) & (d.id['x'] < 3.5)
parts = [a, b]
m = MultiOrState(parts)
before = m.to_mask(d).copy()
# (1) a copy is edited: the original must not change
cp = m.copy()
cp.states.append(c)
ok1 = len(m.states) == 2
# (2) the caller goes on using its own list: the selection must not change
parts.append(c)
ok2 = len(m.states) == 2
from glue.core.decorators import clear_cache
try:
    clear_cache(MultiOrState.to_mask)
except Exception:
    from glue.core.subset import clear_all_caches
    clear_all_caches() if 'clear_all_caches' in dir() else None
after = m.to_mask(d)
print('copy edited -> original has', len(m.states), 'parts; mask before', before.astype(int), 'after', after.astype(int))
ok = ok1 and ok2 and np.array_equal(before, after)
print('OK' if ok else 'DEFECT: editing a copy of a many-way or (or the list it was built from) changes the original selection')
sys.exit(0 if ok else 1)
