from glue.core import Data, DataCollection
d = Data(x=[1, 2, 3], label='d'); e = Data(y=[1, 2], label='e')
dc = DataCollection([d, e])
g = dc.new_subset_group(subset_state=d.id['x'] > 1)
dc.remove(d)
print('after remove: dataset subsets', len(d.subsets), 'group members', len(g.subsets))
dc.append(d)
print('after re-append: dataset subsets', len(d.subsets), 'group members', len(g.subsets))
assert len(d.subsets) == 1 and len(g.subsets) == 2
