import sys, os
sys.path.insert(0, os.getcwd())
import numpy as np
from glue.core import Data
from glue.core.coordinates import AffineCoordinates
m = np.array([[2., 0.5, 1.], [0., 3., 2.], [0., 0., 1.]])
d = Data(x=np.arange(12.).reshape(3, 4), coords=AffineCoordinates(m))
d['y'] = d.id['x'] * 2
bad = 0
for view in (np.ix_([0, 2], [1, 3]), np.ix_([-1, 0], [1, -1, 2]), (np.array([[0], [2]]), np.array([1, 3]))):
    for cid in d.world_component_ids + d.pixel_component_ids + [d.id['x'], d.id['y']]:
        full = d[cid]
        try:
            got = d[cid, view]
            ok = got.shape == full[view].shape and np.array_equal(got, full[view])
        except Exception as e:
            ok = False
            print(cid.label, 'raises', type(e).__name__, str(e)[:80])
        if not ok:
            bad += 1
            print('MISMATCH', cid.label)
print('bad =', bad)
sys.exit(1 if bad else 0)
