import sys, os
sys.path.insert(0, os.getcwd())
import numpy as np
from glue.core import Data
from glue.core.data_derived import IndexedData
d = Data(x=np.arange(60.).reshape(3, 4, 5))
ind = IndexedData(d, (None, 2, None))
x = ind.main_components[0]
full = ind.get_data(x)
print(full.shape)
views = {
 'bool mask': full > 20,
 'slice,array': (slice(0, 2), np.array([0, 3])),
 'array,slice': (np.array([0, 2]), slice(1, 4)),
 'array,array': (np.array([0, 2]), np.array([1, 4])),
 'int,array': (1, np.array([0, 3])),
}
bad = 0
for name, view in views.items():
    try:
        got = ind.get_data(x, view=view)
        want = full[view]
        ok = got.shape == want.shape and np.array_equal(got, want)
        print(name, 'ok' if ok else 'MISMATCH got %s want %s' % (got.shape, want.shape))
    except Exception as e:
        ok = False
        print(name, 'raises', type(e).__name__, str(e)[:70])
    bad += not ok
sys.exit(1 if bad else 0)
