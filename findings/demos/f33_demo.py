"""F33 (C15/C04): a tuple of integer index arrays with negative entries, used as the view of a WORLD attribute, is handed to the
coordinate transformation as pixel coordinates -1, -2, ...: data[world_cid, view] != data[world_cid][view]."""
import numpy as np
from glue.core import Data
from glue.core.coordinates import AffineCoordinates

m = np.array([[2, 0, 1], [0, 3, 5], [0, 0, 1.]])
d = Data(x=np.arange(12).reshape(3, 4).astype(float), coords=AffineCoordinates(m))
view = (np.array([-1, 0]), np.array([1, -1]))
for w in d.world_component_ids:
    full = d[w]
    got = d[w, view]
    assert np.array_equal(full[view], got), (w.label, full[view], got)
# stored attributes already behave
assert np.array_equal(d['x'][view], d['x', view])
# out-of-range entries fail as they do for any array
try:
    d[d.world_component_ids[0], (np.array([5]), np.array([0]))]
except IndexError:
    pass
else:
    raise AssertionError('out-of-range index accepted')
print('OK')
