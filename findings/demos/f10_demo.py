from glue.core.hub import Hub, HubListener
from glue.core.message import Message
class L(HubListener):
    def __init__(self): self.got = []
    def notify(self, m): self.got.append(m.tag)
hub = Hub(); l = L(); hub.subscribe(l, Message)
with hub.delay_callbacks():
    with hub.delay_callbacks():
        hub.broadcast(Message(None, tag='a'))
    inner_leak = list(l.got)
    hub.broadcast(Message(None, tag='b'))
    leak2 = list(l.got)
print('delivered while outer open:', leak2, 'final', l.got)
assert leak2 == [], 'F10: delivered inside the outer delay block'
assert l.got == ['a', 'b']
# handler opening a delay block during flush
hub = Hub()
class L2(HubListener):
    def __init__(self): self.n = 0
    def notify(self, m):
        self.n += 1
        with hub.delay_callbacks():
            pass
l2 = L2(); hub.subscribe(l2, Message)
with hub.delay_callbacks():
    hub.broadcast(Message(None, tag='x'))
print('deliveries', l2.n)
assert l2.n == 1
