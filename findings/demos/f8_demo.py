from glue.core import Data, DataCollection
from glue.core.link_helpers import LinkSame
d1 = Data(x=[1, 2, 3], label='d1'); d2 = Data(y=[1, 2, 3], label='d2')
dc = DataCollection([d1, d2])
try:
    with dc.delay_link_manager_update():
        raise ValueError('invalid operation inside the block')
except ValueError:
    pass
dc.add_link(LinkSame(d1.id['x'], d2.id['y']))
print('counter', dc._disable_sync_link_manager)
print(d1[d2.id['y']])
