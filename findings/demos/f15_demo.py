import numpy as np
from glue.core import Data
from glue.core.component_id import ComponentID
d = Data(x=[1., 2, 3], label='d')
x = d.id['x']
d.add_component_link(x + 1, 'xp1')
print(d['xp1'])
x2 = ComponentID('x2')
d.update_id(x, x2)
print(d['x2'])
print(d['xp1'])
