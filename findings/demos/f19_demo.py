import numpy as np
from glue.core import Data, DataCollection
from glue.core.component_link import ComponentLink
d1 = Data(x=[1., 2, 3, 4], label='d1'); d2 = Data(y=[1., 2, 3, 4], label='d2')
dc = DataCollection([d1, d2])
l1 = ComponentLink([d1.id['x']], d2.id['y'], using=lambda x: 2 * x)
dc.add_link(l1)
state = d2.id['y'] > 4
print('through y=2x :', d1.get_mask(state), d1[d2.id['y']])
dc.remove_link(l1)
l2 = ComponentLink([d1.id['x']], d2.id['y'], using=lambda x: x)
dc.add_link(l2)
got = d1.get_mask(state)
print('through y=x  :', got, d1[d2.id['y']])
assert list(got) == [False, False, False, False], 'stale mask after the link was replaced'
