import sys, os
sys.path.insert(0, os.getcwd())
import numpy as np
from glue.core import Data
from glue.core.data_derived import IndexedData
d = Data(x=np.arange(24.).reshape(2, 3, 4))
ind = IndexedData(d, (None, 1, None))
x = ind.main_components[0]
full = ind.get_data(x)
bad = 0
for view in (None, Ellipsis, (slice(0, 1),), slice(0, 1), (slice(None), slice(1, 3)), (0,), 1, (Ellipsis, 0)):
    try:
        got = ind.get_data(x, view=view)
        want = full[view] if view is not None else full
        ok = np.array_equal(got, want) and got.shape == want.shape
        if not ok:
            print(view, 'MISMATCH', got.shape, want.shape)
    except Exception as e:
        ok = False
        print(view, 'raises', type(e).__name__, str(e)[:60])
    bad += not ok

state = d.id['x'] > 5
fullm = ind.get_mask(state)
for view in (Ellipsis, (slice(0, 1),), slice(0, 1), (0,), np.int64(1)):
    try:
        got = ind.get_mask(state, view=view)
        ok = np.array_equal(got, fullm[view]) and got.shape == fullm[view].shape
        if not ok:
            print('mask', view, 'MISMATCH')
    except Exception as e:
        ok = False
        print('mask', view, 'raises', type(e).__name__, str(e)[:60])
    bad += not ok
try:
    s1 = ind.compute_statistic('sum', x, view=(slice(0, 1),))
    ok = s1 == full[(slice(0, 1),)].sum()
except Exception as e:
    ok = False
    print('statistic raises', type(e).__name__, e)
bad += not ok
print('bad =', bad)
sys.exit(1 if bad else 0)
