import numpy as np
from glue.core import Data
from glue.viewers.histogram.state import HistogramViewerState, HistogramLayerState
calls = []
class D(Data):
    def compute_histogram(self, *a, **k):
        calls.append(k.get('random_subset'))
        return super().compute_histogram(*a, **k)
d = D(x=np.arange(1000.), label='d')
vs = HistogramViewerState()
ls = HistogramLayerState(viewer_state=vs, layer=d)
vs.layers.append(ls)
vs.x_att = d.id['x']
vs.hist_n_bin = 4
ls.histogram
n = len(calls)
vs.random_subset = 100
ls.histogram
print(calls)
assert len(calls) == n + 1 and calls[-1] == 100, 'F11 stale histogram: not recomputed for the new sample size'
