"""F23 (C10): the overall sum of a broadcast attribute (e.g. a pixel attribute) is computed on the
un-broadcast array: repeated values are counted once."""
import numpy as np
from glue.core import Data

d = Data(x=np.ones((4, 6)))
p0 = d.pixel_component_ids[0]
expected = np.nansum(np.asarray(d[p0], dtype=float))
got = d.compute_statistic('sum', p0)
print('sum of pixel axis 0 over a (4, 6) dataset:', got, 'expected', expected)
for stat in ('minimum', 'maximum', 'mean', 'median'):
    assert d.compute_statistic(stat, p0) == getattr(np, {'minimum': 'min', 'maximum': 'max'}.get(stat, stat))(d[p0]), stat
assert got == expected, (got, expected)
print('OK')

d = Data(x=np.ones((2, 2)))
p0 = d.pixel_component_ids[0]
got = d.compute_statistic('percentile', p0, percentile=25)
expected = np.nanpercentile(np.asarray(d[p0], dtype=float), 25)
print('25th percentile of pixel axis 0 over a (2, 2) dataset:', got, 'expected', expected)
assert got == expected
print('OK (percentile)')
