#!/venv/bin/python
"""Behaviour-preserving patches must leave every check silent: apply each to /repo, run every quick check, print any non-zero exit.
usage: eval_refactor.py <patch.diff>...   (absolute paths; /repo must be clean and is reset afterwards)"""
import json
import os
import subprocess
import sys
from concurrent.futures import ThreadPoolExecutor

HERE = os.path.dirname(os.path.dirname(os.path.abspath(__file__)))


def sh(*cmd):
    return subprocess.run(cmd, stdout=subprocess.PIPE, stderr=subprocess.STDOUT, text=True)


def main():
    props = [c['property_id'] for c in json.load(open(os.path.join(HERE, 'MANIFEST.json')))['checks']]
    if sh('git', '-C', '/repo', 'status', '--short').stdout.strip():
        print('refusing: /repo is not clean')
        return 2
    bad = 0
    for p in sys.argv[1:]:
        r = sh('git', '-C', '/repo', 'apply', p)
        if r.returncode != 0:
            r = sh('git', '-C', '/repo', 'apply', '--3way', p)
        if r.returncode != 0:
            print('%s: does not apply' % p)
            sh('git', '-C', '/repo', 'reset', '-q', '--hard', 'HEAD')
            continue
        try:
            def run(pid):
                env = dict(os.environ, VERIF_NO_EVIDENCE='1')
                return pid, subprocess.run(['/venv/bin/python', os.path.join(HERE, 'check.py'), pid, '--tier', 'quick'],
                                           stdout=subprocess.PIPE, stderr=subprocess.STDOUT, text=True, env=env)
            with ThreadPoolExecutor(8) as ex:
                res = list(ex.map(run, props))
            lines = []
            for pid, out in res:
                if out.returncode != 0:
                    for l in out.stdout.splitlines():
                        if l.startswith('  ') or l.startswith('ANALYSIS-ERROR'):
                            lines.append('    [%s rc=%d] %s' % (pid, out.returncode, l.strip()[:300]))
            name = p.replace('/tmp/wt3/', '').replace('.out/', '-').replace('/patch.diff', '')
            if lines:
                bad += 1
                print('## %s' % name)
                print('\n'.join(lines))
            else:
                print('ok %s' % name)
        finally:
            sh('git', '-C', '/repo', 'reset', '-q', '--hard', 'HEAD')
            sh('git', '-C', '/repo', 'clean', '-fdq', '--', 'glue')
    print('%d of %d patches raise an alarm' % (bad, len(sys.argv) - 1))
    for pid in props:
        sh('/venv/bin/python', os.path.join(HERE, 'check.py'), pid, '--tier', 'quick')
    return 0


if __name__ == '__main__':
    sys.exit(main())
