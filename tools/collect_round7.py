#!/venv/bin/python
"""Round 7: copy the sub-agents' changes that tools/validate_seeded.py confirmed (JSON rows under /tmp/wt4/val_*.json) into
/verif/seeded/Cxx-r5mN/ : patch.diff re-made against /repo HEAD in a scratch worktree, demo.py, README.md, meta.json."""
import glob
import json
import os
import shutil
import subprocess
import sys

HERE = os.path.dirname(os.path.dirname(os.path.abspath(__file__)))


def sh(cmd, cwd=None):
    p = subprocess.run(cmd, cwd=cwd, stdout=subprocess.PIPE, stderr=subprocess.STDOUT, text=True)
    return p.returncode, p.stdout


head = sh(['git', '-C', '/repo', 'rev-parse', '--short', 'HEAD'])[1].strip()
wt = '/tmp/val/collect7'
sh(['git', '-C', '/repo', 'worktree', 'remove', '--force', wt])
sh(['git', '-C', '/repo', 'worktree', 'add', '-q', '--detach', wt, 'HEAD'])
kept = 0
try:
    for vf in sorted(glob.glob('/tmp/wt8/val_b*_m*.json')):
        try:
            v = json.load(open(vf))
        except Exception:
            print('unreadable', vf)
            continue
        b, m = os.path.basename(vf)[4:-5].split('_')
        sid = 'C%s-r7%s' % (b[1:], m)
        if not v.get('valid'):
            print('skip %s: %s' % (sid, {k: v.get(k) for k in ('demo_clean_rc', 'demo_patched_rc', 'suite_missing', 'apply_error')}))
            continue
        src = v['src']
        sh(['git', 'reset', '-q', '--hard', 'HEAD'], cwd=wt); sh(['git', 'clean', '-fdq'], cwd=wt)
        rc, out = sh(['git', 'apply', os.path.join(src, 'patch.diff')], cwd=wt)
        if rc != 0:
            rc, out = sh(['git', 'apply', '--3way', os.path.join(src, 'patch.diff')], cwd=wt)
        if rc != 0:
            print('skip %s: does not apply to HEAD: %s' % (sid, out[-200:]))
            continue
        rc, diff = sh(['git', 'diff', 'HEAD'], cwd=wt)
        dst = os.path.join(HERE, 'seeded', sid)
        os.makedirs(dst, exist_ok=True)
        open(os.path.join(dst, 'patch.diff'), 'w').write(diff)
        shutil.copy(os.path.join(src, 'demo.py'), os.path.join(dst, 'demo.py'))
        if os.path.exists(os.path.join(src, 'README.md')):
            shutil.copy(os.path.join(src, 'README.md'), os.path.join(dst, 'README.md'))
        meta = dict(
            id=sid, property='C' + b[1:], round=7,
            source='independent sub-agent given only the text of the property and its own scratch git worktree of /repo',
            what_it_needs="see README.md (the sub-agent's description: the change, why it breaks the property, what it needs to show)",
            confirmed=dict(
                suite='tools/validate_seeded.py in a scratch worktree of /repo %s (removed afterwards): demo exit %s on the clean tree, exit %s '
                      'with the patch (%s); pinned suite with the patch: %s; stable_pass tests not passing: %s'
                      % (head, v.get('demo_clean_rc'), v.get('demo_patched_rc'), (v.get('demo_patched_tail') or [''])[0][:200], v.get('suite_tail'), v.get('suite_missing'))),
            detected_by=[], reports=[],
            replay='git -C /repo apply /verif/seeded/%s/patch.diff && /venv/bin/python /verif/check.py C%s; git -C /repo checkout -- .' % (sid, b[1:]))
        json.dump(meta, open(os.path.join(dst, 'meta.json'), 'w'), indent=1)
        kept += 1
finally:
    sh(['git', '-C', '/repo', 'worktree', 'remove', '--force', wt])
print('%d kept' % kept)
