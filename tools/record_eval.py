#!/venv/bin/python
"""Record in each /verif/seeded/<id>/meta.json which checks reported the change (from an eval_seeded.py log)."""
import json
import os
import re
import sys

fired, cur = {}, None
for line in open(sys.argv[1]):
    m = re.match(r'== (.*)/patch.diff', line)
    if m:
        cur = m.group(1)
        fired[cur] = dict(checks=[], lines=[], errors='')
    elif cur and line.strip().startswith('fired:'):
        fired[cur]['checks'] = re.findall(r'C\d\d', line)
    elif cur and re.match(r'\s+C\d\d\.', line):
        fired[cur]['lines'].append(line.strip()[:400])
    elif cur and 'analysis errors' in line:
        fired[cur]['errors'] = line.strip()[:300]
    elif 'does not apply' in line:
        print(line.strip())
tot = det = own = 0
for d, f in sorted(fired.items()):
    mp = os.path.join(d, 'meta.json')
    meta = json.load(open(mp))
    meta['detected_by'] = f['checks']
    meta['reports'] = f['lines'][:4]
    meta.pop('analysis_errors', None)
    if f['errors']:
        meta['analysis_errors'] = f['errors']
    json.dump(meta, open(mp, 'w'), indent=1)
    tot += 1
    det += bool(f['checks'])
    own += meta['property'] in f['checks']
    flag = '' if meta['property'] in f['checks'] else ('  <-- other property only' if f['checks'] else '  <-- MISSED')
    print(os.path.basename(d), f['checks'] or 'NONE', f['errors'][:80], flag)
print('changes %d, reported %d, reported by the check of their own property %d' % (tot, det, own))
