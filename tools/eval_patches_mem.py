#!/venv/bin/python
"""Evaluate many patches in memory (overlay on /repo; nothing written), every claimed property against every patch, 16 jobs.
usage: eval_patches_mem.py <dir-with-*/patch.diff | patch.diff>... [--own]   (--own: only the property named in the dir)
prints one line per patch: <name> silent | <prop>:<rule or ANALYSIS-ERROR> ..."""
import json
import os
import re
import sys
from concurrent.futures import ProcessPoolExecutor

HERE = os.path.dirname(os.path.dirname(os.path.abspath(__file__)))
sys.path.insert(0, HERE)


def one(args):
    patch, prop = args
    from tools.try_patch import one as _one
    try:
        return patch, prop, _one((patch, prop))[1]
    except Exception as e:      # noqa
        return patch, prop, ['CRASH %r' % (e,)]


def main():
    own = '--own' in sys.argv
    args = [a for a in sys.argv[1:] if a != '--own']
    patches = []
    for a in args:
        if os.path.isdir(a):
            for d in sorted(os.listdir(a)):
                p = os.path.join(a, d, 'patch.diff')
                if os.path.exists(p):
                    patches.append(os.path.abspath(p))
        else:
            patches.append(os.path.abspath(a))
    props = [c['property_id'] for c in json.load(open(os.path.join(HERE, 'MANIFEST.json')))['checks']]
    jobs = []
    for p in patches:
        name = os.path.basename(os.path.dirname(p))
        for pr in props:
            if own and not name.startswith(pr):
                continue
            jobs.append((p, pr))
    res = {}
    with ProcessPoolExecutor(16) as ex:
        for patch, prop, out in ex.map(one, jobs, chunksize=4):
            res.setdefault(patch, {})[prop] = out
    for p in patches:
        name = os.path.basename(os.path.dirname(p))
        hits = []
        for pr in props:
            for l in res.get(p, {}).get(pr, []):
                m = re.match(r'(C\d\d\.\w+(\(\w+\))?)', l)
                hits.append('%s:%s' % (pr, m.group(1) if m else l.split(':')[0][:40]))
        print('%s %s' % (name, ' '.join(sorted(set(hits))) if hits else 'silent'))


if __name__ == '__main__':
    main()
