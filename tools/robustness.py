#!/venv/bin/python
"""Whole-tree behaviour-preserving transformations, evaluated in memory (overlay): every check must stay silent.

  reformat   every module re-printed by ast.unparse (formatting, comments and line numbers all change)
  shift      40 blank comment lines inserted at the top of every module (line numbers change)
  logging    a no-op statement inserted at the top of every function body
"""
import ast
import os
import sys

HERE = os.path.dirname(os.path.dirname(os.path.abspath(__file__)))
sys.path.insert(0, HERE)
from check import run_property  # noqa: E402
from sa.report import load_known  # noqa: E402


def sources(root='/repo'):
    out = {}
    for dp, dn, fn in os.walk(os.path.join(root, 'glue')):
        dn[:] = [d for d in dn if d not in ('tests', '__pycache__')]
        for f in fn:
            if f.endswith('.py') and f != 'conftest.py':
                full = os.path.join(dp, f)
                out[os.path.relpath(full, root)] = open(full, encoding='utf8').read()
    return out


def t_reformat(src):
    return ast.unparse(ast.parse(src)) + '\n'


def t_shift(src):
    lines = src.splitlines(True)
    i = 0
    while i < len(lines) and (lines[i].startswith('#') or 'coding' in lines[i]):
        i += 1
    return ''.join(lines[:i]) + '# pad\n' * 40 + ''.join(lines[i:])


class _Ins(ast.NodeTransformer):
    def visit_FunctionDef(self, node):
        self.generic_visit(node)
        body = node.body
        k = 1 if body and isinstance(body[0], ast.Expr) and isinstance(body[0].value, ast.Constant) and isinstance(body[0].value.value, str) else 0
        if any(isinstance(n, (ast.Yield, ast.YieldFrom)) for n in ast.walk(node)) and False:
            return node
        stmt = ast.parse("_verif_noop = None").body[0]
        node.body = body[:k] + [stmt] + body[k:]
        return node


def t_logging(src):
    t = _Ins().visit(ast.parse(src))
    ast.fix_missing_locations(t)
    return ast.unparse(t) + '\n'


def main():
    import json
    props = [c['property_id'] for c in json.load(open(os.path.join(HERE, 'MANIFEST.json')))['checks']]
    known = {(e['property'], e['rule'], e['construct']) for e in load_known() if e.get('status') == 'finding'}
    src = sources()
    bad = 0
    for name, fn in (('reformat', t_reformat), ('shift', t_shift), ('logging', t_logging)):
        overlay = {k: fn(v) for k, v in src.items()}
        for p in props:
            ctx, err = run_property(p, 'quick', '/repo', overlay=overlay, write=False)
            reps = [r for r in ctx.reports if r.key not in known]
            if err is not None or reps:
                bad += 1
                print('%-9s %s: %s' % (name, p, ('ANALYSIS-ERROR ' + str(err))[:300] if err is not None else reps[0].line()[:300]))
        print('%s done' % name)
    print('%d problems' % bad)
    return 1 if bad else 0


if __name__ == '__main__':
    sys.exit(main())
