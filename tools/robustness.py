#!/venv/bin/python
"""Whole-tree behaviour-preserving transformations, evaluated in memory (overlay): every check must stay silent.

  reformat   every module re-printed by ast.unparse (formatting, comments and line numbers all change)
  shift      40 blank comment lines inserted at the top of every module (line numbers change)
  logging    a no-op statement inserted at the top of every function body
"""
import ast
import os
import sys

HERE = os.path.dirname(os.path.dirname(os.path.abspath(__file__)))
sys.path.insert(0, HERE)
from check import run_property  # noqa: E402
from sa.report import load_known  # noqa: E402


def sources(root='/repo'):
    out = {}
    for dp, dn, fn in os.walk(os.path.join(root, 'glue')):
        dn[:] = [d for d in dn if d not in ('tests', '__pycache__')]
        for f in fn:
            if f.endswith('.py') and f != 'conftest.py':
                full = os.path.join(dp, f)
                out[os.path.relpath(full, root)] = open(full, encoding='utf8').read()
    return out


def t_reformat(src):
    return ast.unparse(ast.parse(src)) + '\n'


def t_shift(src):
    lines = src.splitlines(True)
    i = 0
    while i < len(lines) and (lines[i].startswith('#') or 'coding' in lines[i]):
        i += 1
    return ''.join(lines[:i]) + '# pad\n' * 40 + ''.join(lines[i:])


class _Ins(ast.NodeTransformer):
    def visit_FunctionDef(self, node):
        self.generic_visit(node)
        body = node.body
        k = 1 if body and isinstance(body[0], ast.Expr) and isinstance(body[0].value, ast.Constant) and isinstance(body[0].value.value, str) else 0
        if any(isinstance(n, (ast.Yield, ast.YieldFrom)) for n in ast.walk(node)) and False:
            return node
        stmt = ast.parse("_verif_noop = None").body[0]
        node.body = body[:k] + [stmt] + body[k:]
        return node


def t_logging(src):
    t = _Ins().visit(ast.parse(src))
    ast.fix_missing_locations(t)
    return ast.unparse(t) + '\n'


class _SwapIf(ast.NodeTransformer):
    """if c: A else: B  ->  if not c: B else: A   (plain if/else only: no elif chains on either side)"""

    def visit_If(self, node):
        self.generic_visit(node)
        if node.orelse and not (len(node.orelse) == 1 and isinstance(node.orelse[0], ast.If)) and \
                not (len(node.body) == 1 and isinstance(node.body[0], ast.If)):
            t = node.test
            neg = t.operand if isinstance(t, ast.UnaryOp) and isinstance(t.op, ast.Not) else ast.UnaryOp(op=ast.Not(), operand=t)
            return ast.copy_location(ast.If(test=neg, body=node.orelse, orelse=node.body), node)
        return node


def t_swapif(src):
    t = _SwapIf().visit(ast.parse(src))
    ast.fix_missing_locations(t)
    return ast.unparse(t) + '\n'


class _RetVar(ast.NodeTransformer):
    """return EXPR  ->  _verif_result = EXPR; return _verif_result   (not in generators / lambdas)"""

    def _block(self, stmts):
        out = []
        for st in stmts:
            if isinstance(st, ast.Return) and st.value is not None and not isinstance(st.value, (ast.Name, ast.Constant)):
                a = ast.copy_location(ast.Assign(targets=[ast.Name(id='_verif_result', ctx=ast.Store())], value=st.value), st)
                r = ast.copy_location(ast.Return(value=ast.Name(id='_verif_result', ctx=ast.Load())), st)
                out += [a, r]
            else:
                out.append(st)
        return out

    def generic_visit(self, node):
        super().generic_visit(node)
        for fld in ('body', 'orelse', 'finalbody'):
            seq = getattr(node, fld, None)
            if isinstance(seq, list) and seq and isinstance(seq[0], ast.stmt):
                setattr(node, fld, self._block(seq))
        if isinstance(node, ast.Try):
            for h in node.handlers:
                h.body = self._block(h.body)
        return node


def t_retvar(src):
    t = _RetVar().visit(ast.parse(src))
    ast.fix_missing_locations(t)
    return ast.unparse(t) + '\n'


class _RenameLocals(ast.NodeTransformer):
    """Every plain local (assigned by name, not a parameter, not global/nonlocal, not used by nested functions) gets a suffix."""

    def visit_FunctionDef(self, node):
        self.generic_visit(node)
        params = {a.arg for a in node.args.posonlyargs + node.args.args + node.args.kwonlyargs}
        if node.args.vararg:
            params.add(node.args.vararg.arg)
        if node.args.kwarg:
            params.add(node.args.kwarg.arg)
        nested = set()
        for n in ast.walk(node):
            if n is not node and isinstance(n, (ast.FunctionDef, ast.Lambda, ast.ClassDef, ast.ListComp, ast.SetComp, ast.DictComp, ast.GeneratorExp)):
                for m in ast.walk(n):
                    if isinstance(m, ast.Name):
                        nested.add(m.id)
            if isinstance(n, (ast.Global, ast.Nonlocal)):
                nested |= set(n.names)
        uses_locals = any(isinstance(n, ast.Call) and isinstance(n.func, ast.Name) and n.func.id in ('locals', 'vars', 'eval', 'exec') for n in ast.walk(node))
        if uses_locals:
            return node
        stored = {n.id for n in ast.walk(node) if isinstance(n, ast.Name) and isinstance(n.ctx, ast.Store)}
        ren = {n for n in stored if n not in params and n not in nested and not n.startswith('__')}
        for n in ast.walk(node):
            if isinstance(n, ast.Name) and n.id in ren:
                n.id = n.id + '_v'
        return node


def t_rename(src):
    t = _RenameLocals().visit(ast.parse(src))
    ast.fix_missing_locations(t)
    return ast.unparse(t) + '\n'


class _GuardClause(ast.NodeTransformer):
    """def f(): ...; if c: BODY   (last statement, no else, BODY without a bare fall-through need)  ->  ...; if not c: return; BODY"""

    def visit_FunctionDef(self, node):
        self.generic_visit(node)
        if any(isinstance(n, (ast.Yield, ast.YieldFrom)) for n in ast.walk(node)):
            return node
        body = node.body
        if body and isinstance(body[-1], ast.If) and not body[-1].orelse and len(body[-1].body) >= 2:
            t = body[-1]
            neg = t.test.operand if isinstance(t.test, ast.UnaryOp) and isinstance(t.test.op, ast.Not) else ast.UnaryOp(op=ast.Not(), operand=t.test)
            g = ast.copy_location(ast.If(test=neg, body=[ast.copy_location(ast.Return(value=None), t)], orelse=[]), t)
            node.body = body[:-1] + [g] + t.body
        return node


def t_guard(src):
    t = _GuardClause().visit(ast.parse(src))
    ast.fix_missing_locations(t)
    return ast.unparse(t) + '\n'


class _ElifNest(ast.NodeTransformer):
    """elif chains written as nested else: if (ast.unparse prints a lone If in orelse as elif, so a pass statement is added)"""

    def visit_If(self, node):
        self.generic_visit(node)
        if len(node.orelse) == 1 and isinstance(node.orelse[0], ast.If):
            node.orelse = [ast.copy_location(ast.Pass(), node.orelse[0]), node.orelse[0]]
        return node


def t_elif(src):
    t = _ElifNest().visit(ast.parse(src))
    ast.fix_missing_locations(t)
    return ast.unparse(t) + '\n'


class _IfExpAssign(ast.NodeTransformer):
    """if c: x = a else: x = b   ->   x = a if c else b      (single plain assignments to the same name in both arms)"""

    def visit_If(self, node):
        self.generic_visit(node)
        if len(node.body) == 1 and len(node.orelse) == 1 and all(isinstance(s_, ast.Assign) and len(s_.targets) == 1 and
                                                                 isinstance(s_.targets[0], ast.Name) for s_ in (node.body[0], node.orelse[0])) \
                and node.body[0].targets[0].id == node.orelse[0].targets[0].id:
            return ast.copy_location(ast.Assign(targets=[ast.Name(id=node.body[0].targets[0].id, ctx=ast.Store())],
                                                value=ast.IfExp(test=node.test, body=node.body[0].value, orelse=node.orelse[0].value)), node)
        return node


def t_ifexp(src):
    t = _IfExpAssign().visit(ast.parse(src))
    ast.fix_missing_locations(t)
    return ast.unparse(t) + '\n'


class _FlipCompare(ast.NodeTransformer):
    """a == b -> b == a ; a != b -> b != a ; a < b -> b > a ; a <= b -> b >= a (and back): operands are pure in the places rules look"""
    FLIP = {ast.Eq: ast.Eq, ast.NotEq: ast.NotEq, ast.Lt: ast.Gt, ast.Gt: ast.Lt, ast.LtE: ast.GtE, ast.GtE: ast.LtE}

    def visit_Compare(self, node):
        self.generic_visit(node)
        if len(node.ops) == 1 and type(node.ops[0]) in self.FLIP and not any(isinstance(n, (ast.Call, ast.NamedExpr)) for n in ast.walk(node)):
            return ast.copy_location(ast.Compare(left=node.comparators[0], ops=[self.FLIP[type(node.ops[0])]()], comparators=[node.left]), node)
        return node


def t_flip(src):
    t = _FlipCompare().visit(ast.parse(src))
    ast.fix_missing_locations(t)
    return ast.unparse(t) + '\n'


class _ReorderMethods(ast.NodeTransformer):
    """Plain methods of a class (no decorator, or staticmethod / classmethod only) are put in reverse order; everything else keeps
    its place.  Definition order of such methods means nothing to Python."""

    def visit_ClassDef(self, node):
        self.generic_visit(node)
        def plain(st):
            return isinstance(st, ast.FunctionDef) and all(isinstance(d, ast.Name) and d.id in ('staticmethod', 'classmethod') for d in st.decorator_list)
        idx = [i for i, st in enumerate(node.body) if plain(st)]
        used = {n.id for st in node.body if not isinstance(st, ast.FunctionDef) for n in ast.walk(st) if isinstance(n, ast.Name)}
        idx = [i for i in idx if node.body[i].name not in used]
        rev = [node.body[i] for i in reversed(idx)]
        for i, st in zip(idx, rev):
            node.body[i] = st
        return node


def t_reorder(src):
    t = _ReorderMethods().visit(ast.parse(src))
    ast.fix_missing_locations(t)
    return ast.unparse(t) + '\n'


class _InlineTemps(ast.NodeTransformer):
    """x = EXPR; <next statement using x exactly once, x used nowhere else>  ->  <next statement with EXPR in place of x>
    when EXPR is free of calls (no side effects, evaluation order irrelevant)."""

    def visit_FunctionDef(self, node):
        self.generic_visit(node)
        loads, stores = {}, {}
        for n in ast.walk(node):
            if isinstance(n, ast.Name):
                d = loads if isinstance(n.ctx, ast.Load) else stores
                d[n.id] = d.get(n.id, 0) + 1

        def fix(stmts):
            out = []
            i = 0
            while i < len(stmts):
                st = stmts[i]
                nxt = stmts[i + 1] if i + 1 < len(stmts) else None
                if isinstance(st, ast.Assign) and len(st.targets) == 1 and isinstance(st.targets[0], ast.Name) and nxt is not None \
                        and isinstance(nxt, (ast.Assign, ast.Expr, ast.Return, ast.AugAssign)) \
                        and not any(isinstance(n, (ast.Call, ast.Yield, ast.Await, ast.NamedExpr, ast.Lambda, ast.ListComp, ast.GeneratorExp, ast.DictComp, ast.SetComp)) for n in ast.walk(st.value)):
                    nm = st.targets[0].id
                    uses = [n for n in ast.walk(nxt) if isinstance(n, ast.Name) and n.id == nm and isinstance(n.ctx, ast.Load)]
                    if loads.get(nm, 0) == 1 and stores.get(nm, 0) == 1 and len(uses) == 1:
                        class S(ast.NodeTransformer):
                            def visit_Name(self, n):
                                if n.id == nm and isinstance(n.ctx, ast.Load):
                                    return st.value
                                return n
                        out.append(S().visit(nxt))
                        i += 2
                        continue
                for fld in ('body', 'orelse', 'finalbody'):
                    seq = getattr(st, fld, None)
                    if isinstance(seq, list) and seq and isinstance(seq[0], ast.stmt) and not isinstance(st, (ast.FunctionDef, ast.ClassDef)):
                        setattr(st, fld, fix(seq))
                if isinstance(st, ast.Try):
                    for h in st.handlers:
                        h.body = fix(h.body)
                out.append(st)
                i += 1
            return out
        node.body = fix(node.body)
        return node


def t_inline(src):
    t = _InlineTemps().visit(ast.parse(src))
    ast.fix_missing_locations(t)
    return ast.unparse(t) + '\n'


class _LoopToComp(ast.NodeTransformer):
    """xs = []; for a in b: [if c:] xs.append(E)   ->   xs = [E for a in b [if c]]"""

    def _fix(self, stmts):
        out = []
        i = 0
        while i < len(stmts):
            st = stmts[i]
            nxt = stmts[i + 1] if i + 1 < len(stmts) else None
            done = False
            if isinstance(st, ast.Assign) and len(st.targets) == 1 and isinstance(st.targets[0], ast.Name) and isinstance(st.value, ast.List) \
                    and not st.value.elts and isinstance(nxt, ast.For) and not nxt.orelse and len(nxt.body) == 1:
                nm = st.targets[0].id
                b = nxt.body[0]
                cond_ = None
                if isinstance(b, ast.If) and not b.orelse and len(b.body) == 1:
                    cond_, b = b.test, b.body[0]
                if isinstance(b, ast.Expr) and isinstance(b.value, ast.Call) and isinstance(b.value.func, ast.Attribute) and b.value.func.attr == 'append' \
                        and isinstance(b.value.func.value, ast.Name) and b.value.func.value.id == nm and len(b.value.args) == 1 \
                        and not any(isinstance(n, ast.Name) and n.id == nm for n in ast.walk(b.value.args[0])) \
                        and not (cond_ is not None and any(isinstance(n, ast.Name) and n.id == nm for n in ast.walk(cond_))) \
                        and not any(isinstance(n, (ast.Yield, ast.Await)) for n in ast.walk(nxt)):
                    comp = ast.ListComp(elt=b.value.args[0], generators=[ast.comprehension(target=nxt.target, iter=nxt.iter, ifs=[cond_] if cond_ is not None else [], is_async=0)])
                    out.append(ast.copy_location(ast.Assign(targets=[ast.Name(id=nm, ctx=ast.Store())], value=comp), st))
                    i += 2
                    done = True
            if not done:
                out.append(st)
                i += 1
        return out

    def generic_visit(self, node):
        super().generic_visit(node)
        for fld in ('body', 'orelse', 'finalbody'):
            seq = getattr(node, fld, None)
            if isinstance(seq, list) and seq and isinstance(seq[0], ast.stmt):
                setattr(node, fld, self._fix(seq))
        if isinstance(node, ast.Try):
            for h in node.handlers:
                h.body = self._fix(h.body)
        return node


def t_comp(src):
    t = _LoopToComp().visit(ast.parse(src))
    ast.fix_missing_locations(t)
    return ast.unparse(t) + '\n'


class _CompToLoop(ast.NodeTransformer):
    """xs = [E for a in b [if c]]  (statement level, one generator, target names not used afterwards)  ->  xs = []; for a in b: [if c:] xs.append(E)"""

    def _fix(self, stmts, used_after):
        out = []
        for k, st in enumerate(stmts):
            if isinstance(st, ast.Assign) and len(st.targets) == 1 and isinstance(st.targets[0], ast.Name) and isinstance(st.value, ast.ListComp) \
                    and len(st.value.generators) == 1 and not st.value.generators[0].is_async:
                g = st.value.generators[0]
                nm = st.targets[0].id
                tnames = {n.id for n in ast.walk(g.target) if isinstance(n, ast.Name)}
                later = {n.id for s2 in stmts[k + 1:] for n in ast.walk(s2) if isinstance(n, ast.Name)} | used_after
                earlier = {n.id for s2 in stmts[:k] for n in ast.walk(s2) if isinstance(n, ast.Name)}
                if not (tnames & (later | earlier)) and not any(isinstance(n, ast.Name) and n.id == nm for n in ast.walk(st.value)):
                    app = ast.Expr(value=ast.Call(func=ast.Attribute(value=ast.Name(id=nm, ctx=ast.Load()), attr='append', ctx=ast.Load()), args=[st.value.elt], keywords=[]))
                    body = [app]
                    for c in reversed(g.ifs):
                        body = [ast.If(test=c, body=body, orelse=[])]
                    out.append(ast.copy_location(ast.Assign(targets=[ast.Name(id=nm, ctx=ast.Store())], value=ast.List(elts=[], ctx=ast.Load())), st))
                    out.append(ast.copy_location(ast.For(target=g.target, iter=g.iter, body=body, orelse=[]), st))
                    continue
            out.append(st)
        return out

    def visit_FunctionDef(self, node):
        self.generic_visit(node)
        allnames = {n.id for n in ast.walk(node) if isinstance(n, ast.Name)}
        # only top-level statements of the function body (keeps the "not used elsewhere" test simple)
        node.body = self._fix(node.body, set())
        return node


def t_uncomp(src):
    t = _CompToLoop().visit(ast.parse(src))
    ast.fix_missing_locations(t)
    return ast.unparse(t) + '\n'


PRIV = {}


def _collect_private(srcs):
    """Names of private functions / methods (one leading underscore, no dunder) defined anywhere in the package."""
    names = set()
    for src in srcs.values():
        for n in ast.walk(ast.parse(src)):
            if isinstance(n, ast.FunctionDef) and n.name.startswith('_') and not n.name.startswith('__'):
                names.add(n.name)
    return names


class _PrivRename(ast.NodeTransformer):
    def visit_FunctionDef(self, node):
        self.generic_visit(node)
        if node.name in PRIV['names']:
            node.name = node.name + '_r'
        return node

    def visit_Attribute(self, node):
        self.generic_visit(node)
        if node.attr in PRIV['names']:
            node.attr = node.attr + '_r'
        return node

    def visit_Name(self, node):
        if node.id in PRIV['names']:
            node.id = node.id + '_r'
        return node

    def visit_alias(self, node):
        if node.name in PRIV['names']:
            node.name = node.name + '_r'
        return node

    def visit_Constant(self, node):
        # getattr(self, '_name') / hasattr strings
        if isinstance(node.value, str) and node.value in PRIV['names']:
            return ast.copy_location(ast.Constant(value=node.value + '_r'), node)
        return node


def t_privrename(src):
    t = _PrivRename().visit(ast.parse(src))
    ast.fix_missing_locations(t)
    return ast.unparse(t) + '\n'


def main():
    import json
    props = [c['property_id'] for c in json.load(open(os.path.join(HERE, 'MANIFEST.json')))['checks']]
    known = {(e['property'], e['rule'], e['construct']) for e in load_known() if e.get('status') == 'finding'}
    src = sources()
    PRIV['names'] = _collect_private(src)
    bad = 0
    only = [a for a in sys.argv[1:] if not (a.startswith('C') and a[1:].isdigit())]
    ponly = [a for a in sys.argv[1:] if a.startswith('C') and a[1:].isdigit()]
    if ponly:
        props = ponly
    for name, fn in (('reformat', t_reformat), ('shift', t_shift), ('logging', t_logging), ('swapif', t_swapif), ('retvar', t_retvar), ('rename', t_rename), ('guard', t_guard), ('elif', t_elif), ('ifexp', t_ifexp), ('flip', t_flip), ('reorder', t_reorder), ('inline', t_inline), ('comp', t_comp), ('uncomp', t_uncomp), ('privrename', t_privrename)):
        if (only and name not in only) or (not only and name == 'privrename'):
            continue
        overlay = {k: fn(v) for k, v in src.items()}
        for p in props:
            ctx, err = run_property(p, 'quick', '/repo', overlay=overlay, write=False)
            reps = [r for r in ctx.reports if r.key not in known]
            if err is not None or reps:
                bad += 1
                print('%-9s %s: %s' % (name, p, ('ANALYSIS-ERROR ' + str(err))[:300] if err is not None else " || ".join(r.line()[:260] for r in reps[:8])))
        print('%s done' % name)
    print('%d problems' % bad)
    return 1 if bad else 0


if __name__ == '__main__':
    sys.exit(main())
