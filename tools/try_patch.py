#!/venv/bin/python
"""Evaluate a patch in memory (overlay on /repo's current files; nothing is written): run the quick checks of the given
properties (default: all claimed) and print every report / analysis error.
usage: try_patch.py <patch.diff> [Cxx ...]"""
import json
import os
import sys
from concurrent.futures import ProcessPoolExecutor

HERE = os.path.dirname(os.path.dirname(os.path.abspath(__file__)))
sys.path.insert(0, HERE)


def one(args):
    patch, prop = args
    from check import run_property
    from sa.selftest import apply_unified_diff
    from sa.report import load_known
    ov = apply_unified_diff('/repo', open(patch, encoding='utf8').read())
    if not ov:
        return prop, ['DOES-NOT-APPLY']
    ctx, err = run_property(prop, 'quick', '/repo', overlay=ov, write=False)
    known = {(e['property'], e['rule'], e['construct']) for e in load_known() if e.get('status') == 'finding'}
    out = [r.line()[:400] for r in ctx.reports if r.key not in known]
    if err is not None:
        out.append('ANALYSIS-ERROR %s' % str(err)[:400])
    return prop, out


def main():
    patch = os.path.abspath(sys.argv[1])
    props = sys.argv[2:] or [c['property_id'] for c in json.load(open(os.path.join(HERE, 'MANIFEST.json')))['checks']]
    with ProcessPoolExecutor(min(8, len(props))) as ex:
        res = list(ex.map(one, [(patch, p) for p in props]))
    bad = 0
    for prop, out in res:
        for l in out:
            bad += 1
            print('[%s] %s' % (prop, l))
    if not bad:
        print('silent: %s' % ' '.join(props))
    return 1 if bad else 0


if __name__ == '__main__':
    sys.exit(main())
