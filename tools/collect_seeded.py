#!/venv/bin/python
"""Copy confirmed seeded changes into /verif/seeded/<id>/ (patch.diff rebased onto /repo HEAD, demo.py, README.md, meta.json).

usage: collect_seeded.py <validation.jsonl>... -- <recheck.jsonl>...
  validation rows come from tools/validate_seeded.py (demo clean/patched + the pinned suite, in a scratch worktree);
  recheck rows from tools/recheck_seeded.py (demo clean/patched on the final HEAD + the rebased diff).
Names: validation rows 'Cxx-mN' (round 1) or 'r2-Cxx-mN' (round 2); recheck rows 'Cxx-mN' / 'Cxx-r2mN'."""
import json
import os
import sys

HERE = os.path.dirname(os.path.dirname(os.path.abspath(__file__)))
args = sys.argv[1:]
k = args.index('--')
val, rec = {}, {}
for p in args[:k]:
    for l in open(p):
        if l.strip():
            r = json.loads(l)
            n = r['name']
            if n.startswith('r2-'):
                n = n[3:].replace('-m', '-r2m')
            val[n] = r
for p in args[k + 1:]:
    for l in open(p):
        if l.strip():
            r = json.loads(l)
            if 'error' not in r:
                rec[r['name']] = r
kept = 0
for n in sorted(rec):
    r, v = rec[n], val.get(n)
    if not r.get('valid'):
        print('skip %s: demo on HEAD clean rc=%s patched rc=%s applies=%s' % (n, r.get('demo_clean_rc'), r.get('demo_patched_rc'), r.get('applies')))
        continue
    if v is None or not v.get('valid'):
        print('skip %s: no valid suite confirmation' % n)
        continue
    dst = os.path.join(HERE, 'seeded', n)
    os.makedirs(dst, exist_ok=True)
    open(os.path.join(dst, 'patch.diff'), 'w').write(r['rebased'])
    src = r['src']
    open(os.path.join(dst, 'demo.py'), 'w').write(open(os.path.join(src, 'demo.py')).read())
    readme = open(os.path.join(src, 'README.md')).read() if os.path.exists(os.path.join(src, 'README.md')) else ''
    open(os.path.join(dst, 'README.md'), 'w').write(readme)
    old = {}
    if os.path.exists(os.path.join(dst, 'meta.json')):
        old = json.load(open(os.path.join(dst, 'meta.json')))
    meta = dict(
        id=n, property=n.split('-')[0], round=2 if '-r2' in n else 1,
        source='independent sub-agent given only the text of the property and its own scratch git worktree of /repo',
        what_it_needs='see README.md (the sub-agent\'s description: the change, why it breaks the property, what it needs to show)',
        confirmed=dict(
            suite='tools/validate_seeded.py in a scratch worktree (removed afterwards): demo exit %s on the clean tree, exit %s with the '
                  'patch; pinned suite with the patch: %s; stable_pass tests not passing: %s'
                  % (v['demo_clean_rc'], v['demo_patched_rc'], v.get('suite_tail'), v.get('suite_missing')),
            on_final_head='tools/recheck_seeded.py at /repo %s: patch applies (%s), glue compiles, demo exit %s clean / exit %s patched (%s)'
                          % (r.get('head'), r.get('applies'), r['demo_clean_rc'], r['demo_patched_rc'], (r.get('demo_patched_tail') or [''])[0][:200])),
        detected_by=old.get('detected_by', []), reports=old.get('reports', []),
        replay='git -C /repo apply /verif/seeded/%s/patch.diff && /venv/bin/python /verif/check.py %s; git -C /repo checkout -- .' % (n, n.split('-')[0]))
    json.dump(meta, open(os.path.join(dst, 'meta.json'), 'w'), indent=1)
    kept += 1
print('kept', kept)
