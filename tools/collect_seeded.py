#!/venv/bin/python
"""Copy confirmed seeded changes into /verif/seeded/<id>/ with meta.json (run after validate_seeded + eval_seeded).

usage: collect_seeded.py <results.jsonl> <eval.log>"""
import json
import os
import re
import shutil
import sys

HERE = os.path.dirname(os.path.dirname(os.path.abspath(__file__)))
results = [json.loads(l) for l in open(sys.argv[1]) if l.strip()]
evaltxt = open(sys.argv[2]).read() if len(sys.argv) > 2 else ''
fired = {}
cur = None
for line in evaltxt.splitlines():
    m = re.match(r'== (.*)/patch.diff', line)
    if m:
        cur = m.group(1)
        fired[cur] = dict(checks=[], lines=[])
    elif cur and line.strip().startswith('fired:'):
        fired[cur]['checks'] = re.findall(r'C\d\d', line)
    elif cur and re.match(r'\s+C\d\d\.', line):
        fired[cur]['lines'].append(line.strip()[:400])
for r in results:
    if not r.get('valid'):
        print('skip (not confirmed):', r['name'], {k: r.get(k) for k in ('demo_clean_rc', 'demo_patched_rc', 'suite_missing', 'apply_error')})
        continue
    src = r['src']
    dst = os.path.join(HERE, 'seeded', r['name'])
    os.makedirs(dst, exist_ok=True)
    shutil.copy(os.path.join(src, 'patch.diff'), os.path.join(dst, 'patch.diff'))
    shutil.copy(os.path.join(src, 'demo.py'), os.path.join(dst, 'demo.py'))
    readme = ''
    if os.path.exists(os.path.join(src, 'README.md')):
        readme = open(os.path.join(src, 'README.md')).read()
    f = fired.get(src.rstrip('/'), dict(checks=[], lines=[]))
    meta = dict(
        id=r['name'], property=r['name'].split('-')[0],
        source='independent sub-agent given only the property text and a scratch worktree',
        description=readme.strip(),
        confirmed=dict(
            how='tools/validate_seeded.py in a scratch worktree of /repo HEAD (removed afterwards)',
            demo_on_clean_tree_exit=r['demo_clean_rc'], demo_with_patch_exit=r['demo_patched_rc'],
            demo_with_patch_last_line=r.get('demo_patched_tail'),
            suite_with_patch=r.get('suite_tail'), stable_pass_tests_not_passing=r.get('suite_missing')),
        detected_by=f['checks'], reports=f['lines'][:4],
        replay='git -C /repo apply /verif/seeded/%s/patch.diff && /venv/bin/python /verif/check.py <Cxx>; git -C /repo checkout -- .' % r['name'])
    json.dump(meta, open(os.path.join(dst, 'meta.json'), 'w'), indent=1)
    print('kept', r['name'], 'detected by', f['checks'] or 'NONE')
