#!/venv/bin/python
"""Confirm a sub-agent's seeded change in a scratch worktree of /repo's HEAD:
  demo passes on the clean tree, patch applies, demo fails with the patch, the pinned suite still passes.
usage: validate_seeded.py <name> <dir with patch.diff + demo.py> [jobs]   -> prints one JSON line; removes the worktree."""
import json
import os
import subprocess
import sys
import xml.etree.ElementTree as ET


def sh(cmd, cwd=None, timeout=3600):
    p = subprocess.run(cmd, cwd=cwd, shell=isinstance(cmd, str), stdout=subprocess.PIPE, stderr=subprocess.STDOUT, text=True,
                       timeout=timeout)
    return p.returncode, p.stdout


def main():
    name, src = sys.argv[1], sys.argv[2]
    jobs = sys.argv[3] if len(sys.argv) > 3 else '4'
    wt = '/tmp/val/%s' % name
    res = dict(name=name, src=src)
    sh(['git', '-C', '/repo', 'worktree', 'remove', '--force', wt])
    rc, out = sh(['git', '-C', '/repo', 'worktree', 'add', '-q', '--detach', wt, 'HEAD'])
    if rc != 0:
        res['error'] = out
        print(json.dumps(res))
        return
    try:
        sh(['cp', os.path.join(src, 'demo.py'), os.path.join(wt, '_seed_demo.py')])
        rc, out = sh(['/venv/bin/python', '_seed_demo.py'], cwd=wt, timeout=900)
        res['demo_clean_rc'] = rc
        res['demo_clean_tail'] = out.strip().splitlines()[-1:] if out.strip() else []
        rc, out = sh(['git', 'apply', os.path.join(src, 'patch.diff')], cwd=wt)
        if rc != 0:
            rc, out = sh(['git', 'apply', '--3way', os.path.join(src, 'patch.diff')], cwd=wt)
        res['applies'] = rc == 0
        if rc != 0:
            res['apply_error'] = out[-300:]
            print(json.dumps(res))
            return
        rc, out = sh(['/venv/bin/python', '_seed_demo.py'], cwd=wt, timeout=900)
        res['demo_patched_rc'] = rc
        res['demo_patched_tail'] = out.strip().splitlines()[-1:] if out.strip() else []
        xml = '/var/tmp/val_%s.xml' % name
        rc, out = sh(['/venv/bin/python', '-m', 'pytest', '-q', '-p', 'no:cacheprovider', '--timeout=900',
                      '--continue-on-collection-errors', '-n', jobs, '--junitxml=' + xml, '--ignore=_seed_demo.py'], cwd=wt, timeout=7200)
        res['suite_tail'] = out.strip().splitlines()[-1]
        base = json.load(open('/root/.vp/BASELINE.json'))
        want = set(base['stable_pass'])
        passed = set()
        for tc in ET.parse(xml).getroot().iter('testcase'):
            nm = '%s::%s' % (tc.get('classname'), tc.get('name'))
            if not [c.tag for c in tc if c.tag in ('failure', 'error', 'skipped')]:
                passed.add(nm)
        os.remove(xml)
        res['suite_missing'] = sorted(want - passed)[:10]
        res['valid'] = (res['demo_clean_rc'] == 0 and res['demo_patched_rc'] != 0 and not res['suite_missing'])
    finally:
        sh(['git', '-C', '/repo', 'worktree', 'remove', '--force', wt])
    print(json.dumps(res))


if __name__ == '__main__':
    main()
