#!/venv/bin/python
"""Regenerate /verif/MANIFEST.json from the rule modules that exist (claimed) and the
not-applicable table below.  Run after adding a rule module."""
import importlib
import json
import os
import sys

HERE = os.path.dirname(os.path.dirname(os.path.abspath(__file__)))
sys.path.insert(0, HERE)
from sa import props  # noqa: E402

ALL = ['C%02d' % i for i in range(1, 21)]
NOT_APPLICABLE = {
    'C20': 'every clause is an integer/array arithmetic identity (combine_slices, find_chunk_shape, iterate_chunks, '
           'unbroadcast, categories[codes] == values); deciding them needs concrete or symbolic evaluation of the '
           'arithmetic, which is a different technique family',
}
NOT_BUILT = 'static check not built yet in this round (see DESIGN.md section 3 for the planned rules)'

checks = []
na = []
for pid in ALL:
    path = os.path.join(HERE, 'sa', 'rules', pid + '.py')
    if pid in NOT_APPLICABLE:
        na.append(dict(property_id=pid, reason=NOT_APPLICABLE[pid]))
        continue
    if not os.path.exists(path):
        na.append(dict(property_id=pid, reason=NOT_BUILT))
        continue
    importlib.import_module('sa.rules.' + pid)
    meta = props.PROPS[pid]
    checks.append(dict(
        property_id=pid,
        quick_cmd='/venv/bin/python /verif/check.py %s --tier quick' % pid,
        thorough_cmd='/venv/bin/python /verif/check.py %s --tier thorough' % pid,
        evidence_file='/verif/evidence/%s.json' % pid,
        replay_cmd_template='/venv/bin/python /verif/check.py --replay {path}',
        engine='sa',
        technique='static analysis: custom ast checkers over a resolved class model (MRO, properties, effect '
                  'summaries), statement CFG / dataflow, finite abstract evaluation and registry/table agreement',
        level_claimed=dict(
            category='other',
            text='Necessary structural conditions of the property, decided exactly for every input at once from the '
                 'source of /repo (no execution): ' + meta['decides'] + '. Not a proof of the behaviour: ' +
                 meta['not_decided'] + ' are not decided.',
            design_ref='DESIGN.md section 3, ' + pid),
        level_note='Trusted base: the Python ast parser; the frozen rule tables in /verif/sa/rules (receiver hints, '
                   'allowed guards, reasoned exception rows - each printed in the evidence file); code outside glue/ '
                   '(plugins, glue_qt) is not seen. An unrecognised idiom or vanished anchor exits 2 (ANALYSIS-ERROR), '
                   'never 0.'))

manifest = dict(
    version=1,
    setup_cmd='/venv/bin/python -m compileall -q /verif/sa /verif/check.py && /venv/bin/python /verif/check.py --help > /dev/null',
    hooks=dict(guard='GLUE_VERIF', enable='none needed: the checks read the source of /repo and never run it',
               baseline_off_cmd='cd /repo && /venv/bin/python -m pytest -ra -q -p no:cacheprovider --timeout=900 '
                                '--continue-on-collection-errors',
               source_commits=[], add_only=True),
    engines=[dict(name='sa', path='/verif/sa', serves_properties=[c['property_id'] for c in checks],
                  kind_free_text='repository-specific static analysis in pure Python (ast): source index and name '
                                 'resolution, static MRO/class model, effect summaries, statement CFG with '
                                 'exceptional edges, forward dataflow, field-flow for copy/save/restore, finite '
                                 'abstract evaluation of the selection algebra; self-test by in-memory witnesses and twins')],
    checks=checks,
    notes='All checks decide structural (shape-of-the-code) clauses only; see DESIGN.md. known_findings.json lists '
          'genuine defects that are recorded rather than repaired, and fixed: entries for repaired ones.',
    not_applicable=na)
with open(os.path.join(HERE, 'MANIFEST.json'), 'w') as fh:
    json.dump(manifest, fh, indent=1)
print('claimed:', [c['property_id'] for c in checks])
print('not applicable:', [n['property_id'] for n in na])
