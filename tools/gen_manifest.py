#!/venv/bin/python
"""Regenerate /verif/MANIFEST.json from the rule modules that exist (claimed) and the
not-applicable table below.  Run after adding a rule module."""
import importlib
import json
import os
import sys

HERE = os.path.dirname(os.path.dirname(os.path.abspath(__file__)))
sys.path.insert(0, HERE)
from sa import props  # noqa: E402

ALL = ['C%02d' % i for i in range(1, 21)]
NOT_APPLICABLE = {
    'C20': 'every clause is an integer/array arithmetic identity (combine_slices, find_chunk_shape, iterate_chunks, '
           'unbroadcast, categories[codes] == values); deciding them needs concrete or symbolic evaluation of the '
           'arithmetic, which is a different technique family',
}
TECHNIQUE = {
    'C01': 'static analysis: finite abstract evaluation of the selection-algebra code over Boolean atoms (resolved through a static class model/MRO), forward dataflow for copy/freshness (ownership of shared masks), field-flow for copy coverage; direct-store flow of constructors (copy cross-flows); no-in-place-edit lint of the edit modes; borrowed-collection lint (a collection read from an operand is never extended in place); path-condition check of the cache flush in __setattr__ (implied by attribute existence alone); dispatcher applies the mode to every edited subset unconditionally (path condition relative to the loop); the many-way or keeps its own list; injectivity of the memo key in its arguments',
    'C02': 'static analysis: static model of serialiser dispatch (MRO + decorator registries) over the class graph; field-flow of saver keys vs loader keys vs constructor parameters; constructor-signature fit; CFG ordering of yield vs back-references; falsy-default constructor-parameter check for restored values; element-coverage of the collection savers/loaders; unique-name (check-before-insert) and never-rebound callback list obligations of the (un)serialiser; identity-test path condition of the by-name form of saved functions; absence-test guard of record upgrades; C-order lint of the categorical code computation; order-by-axis lint of the coordinate sort in the loaders; `saved or default` lint inside loaders',
    'C03': 'static analysis: must-pass-through on the statement CFG (mutation => recomputation, modulo allowed guards), subscription tables, finally-discipline of context managers, loop-mutation lint, shortcut/value-comparison check; decisive-comparison check of the no-change shortcuts (path conditions as formulas); who-may-drop-an-attribute lint; attribute-coverage check of the dataset-removed handler; membership (`cid in link`) decided from the fields compute() reads / from the held links',
    'C04': 'static analysis: forward dataflow (view dependence of every return) + CFG reachability under "view is None"; argument-translation check of the forwarding wrapper; must-pass-through for derived structures; rank (1-d only) obligation of the categorical code lookup; relative-index abstract domain (view entries / index tuples normalised before position arithmetic); ownership guard of the pixel-space shortcut; completion of the caller\'s view in IndexedData (None / Ellipsis / single entry / short tuple) read off path conditions; views of categorical arrays inherit categories only; C-order lint of flatten / reshape pairs; boolean-mask views converted to index arrays before completion',
    'C05': 'static analysis: effect summaries (reads/writes with property, call, deep-mutation and __setattr__-hook expansion) of every mutator vs the memoised readers; must-pass-through to a full-coverage invalidation on the CFG; cache-key completeness; invalidation-dominates-broadcast path check; key-determines-reads check of (key, value) caches; taint of the assigned value through the attribute hook; shared shortcut rule (C03.e) under C05.e; fresh-before-mutate dataflow of the array reducers with parameters as the caller\'s arrays; may-alias dataflow from cache reads to in-place operations (C05.g)',
    'C06': 'static analysis: paired-write check of the two membership collections, must-pass-through for register/unregister on the CFG, class-model resolution of the delegating descriptors, loop-mutation lint; who-deletes-a-grouped-subset lint (group side kept consistent); idempotence of the dataset-added handler; shared undo-membership rule (C13.d) under C06.g; self-sufficiency of the subscriptions made by register_to_hub (fields read by handlers / filters are set by the constructor); every registered DataCollection protocol registers restored groups (call-graph closure over the loaders); hub flush discipline borrowed (C07.b) under C06.h; identity operand check of the membership guard; filter reads followed through methods and getattr',
    'C07': 'static analysis: dominator/branch-reachability analysis of broadcast on the statement CFG; typestate of the delay block (nesting, finally, outermost flush, detached queue); structural checks of handler selection; only a detached snapshot of the queue may be flushed; stored subscription triple is what was given (identity-with-None guard for the numeric priority, unconditional or fully compared store); position agreement between the weak references stored by _wrap and the comparisons of _auto_remove (C07.f)',
    'C08': 'static analysis: effect summaries (move_to write set = center read set), X/Y dataflow tags for axis separation, field-flow of copy/saver/loader vs contains(), chunk read/write pairing; x/y sibling cross-check (paired expressions equal up to renaming); element-order (C) lint of flatten/reshape pairs; sibling agreement of the angle-modulo-period tests; homogeneous-divide dataflow of the projected region (tests read with locals spelled out); general-angle half-extents computed from both radii; scale-free rule borrowed (C09.g) under C08.i; no in-place writes into containers shared by the shallow copy() in move/rotate; period-vs-symmetry table of the angle shortcuts',
    'C09': 'static analysis: abstract enumeration of the dispatch function over region class x axis kinds (isinstance decided by the class model) + two-point axis type system (X|Y tags) on every pairing sink; sortedness typestate of category stores; every-category-examined lint of the polygon translation; shared pre-selection-box rule (C08.f) under C09.f; scale-free lint of the polygon helpers (no rounding / absolute tolerance on coordinate values); pixel-shortcut ownership guard borrowed (C04.f) under C09.h; period-vs-symmetry rule of the angle shortcuts (C08.k) under C09.i',
    'C10': 'static analysis: table agreement of the reducer dictionaries, flag<->filter guard check, keyword-forwarding check on the chunked recursion and the array-level call, chunk write-back pairing; sign-domain abstract interpretation of the upper-limit widening and its ordering w.r.t. the log transform; guard check of un-broadcasting vs repetition-sensitive statistics; typestate of the sub-array flag vs result padding (CFG path search with infeasible-edge pruning); relative-index domain on the statistic view; order dataflow (ORD/LO/HI) of the histogram edges; predicate of the emptiness count of the NaN-aware sum; shared view-of-categorical rule (C04.d) under C10.j',
    'C11': 'static analysis: two-point role type system (LEFT|RIGHT) propagated by forward dataflow through the four join shapes; paired registration/removal; finally-discipline of the recursion guard; value-exact key comparison (no fixed-dtype cast of key data, no unfounded assume_unique); one-sided casts (to the other side\'s dtype) reported as lossy; equivalence of the path conditions of the two registration stores',
    'C12': 'static analysis: registry extraction from decorator call sites (versions, pairs, order), per-version key agreement through helper chains (field-flow), literal agreement of stamp and default, graph checks on the rename table file; layout (shape signature) agreement of keys whose reading is delegated to another version\'s loader; memo key of the loader dispatch; shared back-reference ordering rule (C02.f) under C12.f; quantifier/polarity recogniser for the external-link classification of old DataCollection records; loaded-layout agreement of fields set by several loader versions; save / restore typestate of the disambiguation flag around the recursive load; saver/loader pairing by record position (a sequence stored whole must not be re-wrapped); value transfer of the version-1 upgrade without truth-value defaulting',
    'C13': 'static analysis: structural stack-discipline check (push/pop/call on the same object), inverse-call table, CFG dominance of snapshot over apply, undo write-set vs what the edit mode may change (effect summaries); snapshot recognised as loops / update / comprehension; unconditional restore; edit modes never write into the snapshotted object (C13.f); path conditions of the undo\'s delete; group life-cycle and member-per-dataset rules of C06 under C13.g / C13.h',
    'C14': 'static analysis: operator-dunder tables incl. reflected operand order, dataflow of operand order in compute, effect summaries of replace_ids/update_id, recursion check of the dependent sweep, list-ownership (aliasing) dataflow; view-packing idiom of the key helper (only tuples spliced); transitivity of the dependent sweep decided semantically (recursion, re-sweep or work list); order-preserving rebuild recognised as comprehension or fill loop; sibling rule: every link class computing from its own copy of the inputs rewrites it in replace_ids; operands handled independently; no removal from the namespace shared by nested evaluations; no store into the shared evaluation namespace after eval(); key-provenance check of the tag replacement table (C14.h)',
    'C15': 'static analysis: structural pairing of forward/inverse matrix assignments and uses, per-axis link set-up check (endpoint, index, direction flag), flag<->helper dispatch check; index-role type inference (world vs pixel axis) over the correlation-matrix helpers and their call sites; exact (non-tolerant) dependence table; relative-index taint: view entries reach the transformation only as positions on the pixel axis; per-side seeding conditions of the dependence closure; index arrays broadcast before the transformation; C-order lint of the flatten / reshape pairs around the transformation; exit-condition coverage of the closure loop (every loop-carried mask compared with its successor)',
    'C16': 'static analysis: cache-key completeness (names reaching the key tuples), CFG dominance of the hash test over pixel-cache reads under the cache-id assumption, both-branch accumulation check, sibling-call agreement; shortcut returns use the request\'s invalid value; locals canonicalised by role; shared shortcut rule (C03.e) under C16.e; cache records read through local aliases; hit / store / eviction decided from path conditions; fresh-list dataflow of bounds_for_cache; index-role rule incl. other readers of the dependence table under C16.f; exact dependence table borrowed (C15.d) under C16.g; accumulate-on-every-path and defined-in-iteration decided on the CFG; both accumulators of translate_pixel written inside the loop (C16.h)',
    'C17': 'static analysis: mutation => broadcast must-pass-through and broadcast-dominated-by-mutation on the statement CFG (hub-presence guards pruned, dirty flags), coupled-structure effect summaries, guard-dominates-insert; who-may-write lint for the announced structures; self-announcing writers accepted; lookup decided by evaluating path conditions over match counts; path-sensitive CFG search (boolean locals and is-None facts followed along paths, handler edges) instead of a dirty-flag idiom; definite-write refinement (pop with default); every method that broadcasts a table message is checked; flag lists (any / all) and Boolean accumulations followed along paths',
    'C18': 'static analysis: subscription tables (message -> handler reaching the documented operation, resolved through the class model), registration of both sync directions, key agreement of viewer save/restore, loop-mutation lint, must-notify on the CFG; kind-filter guard check of the attribute picker; removal condition of remove_data and kind filters of the picker as propositional formulas; change-detector rule (no acting path leaves without refreshing the remembered value) by CFG search with state bits; identity membership of the layer-artist container; unfiltered dataset-removed subscription; selection-vs-whole check of remembered values (C18.g)',
    'C19': 'static analysis: structural enumeration/naming/order check of the three exporters, forward dataflow for fresh-before-mutate (no in-place masking of the dataset\'s own arrays), sibling agreement, load-log key agreement (field-flow); SUB/PARENT/MASK dataflow of the subset preparation; dtype-family lint (issubdtype against builtin scalars); no reads of live datasets in the load log\'s saver; rebuilt-dtype lint (byte order); no use of categorical codes in the writers; unconditional BLANK announcement of the integer sentinel',
}

NOT_BUILT = 'static check not built yet in this round (see DESIGN.md section 3 for the planned rules)'

checks = []
na = []
for pid in ALL:
    path = os.path.join(HERE, 'sa', 'rules', pid + '.py')
    if pid in NOT_APPLICABLE:
        na.append(dict(property_id=pid, reason=NOT_APPLICABLE[pid]))
        continue
    if not os.path.exists(path):
        na.append(dict(property_id=pid, reason=NOT_BUILT))
        continue
    importlib.import_module('sa.rules.' + pid)
    meta = props.PROPS[pid]
    checks.append(dict(
        property_id=pid,
        quick_cmd='/venv/bin/python /verif/check.py %s --tier quick' % pid,
        thorough_cmd='/venv/bin/python /verif/check.py %s --tier thorough' % pid,
        evidence_file='/verif/evidence/%s.json' % pid,
        replay_cmd_template='/venv/bin/python /verif/check.py --replay {path}',
        engine='sa',
        technique=TECHNIQUE[pid],
        level_claimed=dict(
            category='other',
            text='Necessary structural conditions of the property, decided exactly for every input at once from the '
                 'source of /repo (no execution): ' + meta['decides'] + '. Not a proof of the behaviour: ' +
                 meta['not_decided'] + ' are not decided.',
            design_ref='DESIGN.md section 3, ' + pid),
        level_note='Trusted base: the Python ast parser; the frozen rule tables in /verif/sa/rules (receiver hints, '
                   'allowed guards, reasoned exception rows - each printed in the evidence file); code outside glue/ '
                   '(plugins, glue_qt) is not seen. An unrecognised idiom or vanished anchor exits 2 (ANALYSIS-ERROR), '
                   'never 0.'))

manifest = dict(
    version=1,
    setup_cmd='/venv/bin/python -m compileall -q /verif/sa /verif/check.py && /venv/bin/python /verif/check.py --help > /dev/null',
    hooks=dict(guard='GLUE_VERIF', enable='none needed: the checks read the source of /repo and never run it',
               baseline_off_cmd='cd /repo && /venv/bin/python -m pytest -ra -q -p no:cacheprovider --timeout=900 '
                                '--continue-on-collection-errors',
               source_commits=[], add_only=True),
    engines=[dict(name='sa', path='/verif/sa', serves_properties=[c['property_id'] for c in checks],
                  kind_free_text='repository-specific static analysis in pure Python (ast): source index and name '
                                 'resolution, static MRO/class model, effect summaries, statement CFG with '
                                 'exceptional edges, forward dataflow, field-flow for copy/save/restore, finite '
                                 'abstract evaluation of the selection algebra; self-test by in-memory witnesses and twins')],
    checks=checks,
    notes='All checks decide structural (shape-of-the-code) clauses only; see DESIGN.md. known_findings.json lists '
          'genuine defects that are recorded rather than repaired, and fixed: entries for repaired ones.',
    not_applicable=na)
with open(os.path.join(HERE, 'MANIFEST.json'), 'w') as fh:
    json.dump(manifest, fh, indent=1)
print('claimed:', [c['property_id'] for c in checks])
print('not applicable:', [n['property_id'] for n in na])
