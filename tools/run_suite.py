#!/venv/bin/python
"""Run glue's pinned suite (parallel) and compare with BASELINE.json's stable_pass list.

usage: run_suite.py [repo_dir]     exit 0 iff every stable_pass test passes.
"""
import json
import os
import subprocess
import sys
import tempfile
import xml.etree.ElementTree as ET

repo = sys.argv[1] if len(sys.argv) > 1 else '/repo'
base = json.load(open('/root/.vp/BASELINE.json'))
want = set(base['stable_pass'])
fd, xml = tempfile.mkstemp(suffix='.xml', dir='/var/tmp')
os.close(fd)
env = dict(os.environ)
env.pop('GLUE_VERIF', None)
cmd = ['/venv/bin/python', '-m', 'pytest', '-q', '-p', 'no:cacheprovider', '--timeout=900',
       '--continue-on-collection-errors', '-n', os.environ.get('SUITE_JOBS', '12'), '--junitxml=' + xml]
p = subprocess.run(cmd, cwd=repo, env=env, stdout=subprocess.PIPE, stderr=subprocess.STDOUT, text=True)
passed = set()
failed = set()
for tc in ET.parse(xml).getroot().iter('testcase'):
    name = '%s::%s' % (tc.get('classname'), tc.get('name'))
    bad = [c.tag for c in tc if c.tag in ('failure', 'error', 'skipped')]
    (failed if bad else passed).add(name)
os.remove(xml)
missing = sorted(want - passed)
print(p.stdout.strip().splitlines()[-1])
print('stable_pass=%d passed_now=%d missing=%d' % (len(want), len(passed), len(missing)))
for m in missing[:40]:
    print('  NOT PASSING:', m)
sys.exit(1 if missing else 0)
