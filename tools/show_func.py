#!/venv/bin/python
"""Print a function as the rules see it (after inlining / folding / normalisation), optionally under a patch overlay.
usage: show_func.py <class qualname|module> <func> [patch.diff]"""
import ast
import os
import sys
HERE = os.path.dirname(os.path.dirname(os.path.abspath(__file__)))
sys.path.insert(0, HERE)
from sa.index import Index  # noqa
from sa.selftest import apply_unified_diff  # noqa

ov = apply_unified_diff('/repo', open(sys.argv[3], encoding='utf8').read()) if len(sys.argv) > 3 else None
ix = Index('/repo', overlay=ov)
owner, name = sys.argv[1], sys.argv[2]
c = ix.classes.get(owner)
f = c.resolve_func(name) if c is not None else ix.functions.get('%s:%s' % (owner, name)) or ix.functions.get('%s.%s' % (owner, name))
print(ast.unparse(f.node))
