#!/venv/bin/python
"""Re-confirm seeded changes against /repo's current HEAD in scratch worktrees (demos only; the suite was run by
validate_seeded.py when the change was first confirmed) and write the patch rebased onto HEAD.

usage: recheck_seeded.py <out.jsonl> <name>=<dir> ...      one scratch worktree per job under /tmp/recheck, removed afterwards"""
import json
import os
import subprocess
import sys
from concurrent.futures import ThreadPoolExecutor


def sh(cmd, cwd=None, timeout=900):
    p = subprocess.run(cmd, cwd=cwd, stdout=subprocess.PIPE, stderr=subprocess.STDOUT, text=True, timeout=timeout)
    return p.returncode, p.stdout


def one(item):
    name, src = item
    wt = '/tmp/recheck/%s' % name
    res = dict(name=name, src=src)
    sh(['git', '-C', '/repo', 'worktree', 'remove', '--force', wt])
    rc, out = sh(['git', '-C', '/repo', 'worktree', 'add', '-q', '--detach', wt, 'HEAD'])
    if rc != 0:
        res['error'] = out[-300:]
        return res
    try:
        res['head'] = sh(['git', 'rev-parse', '--short', 'HEAD'], cwd=wt)[1].strip()
        sh(['cp', os.path.join(src, 'demo.py'), os.path.join(wt, '_seed_demo.py')])
        rc, out = sh(['/venv/bin/python', '_seed_demo.py'], cwd=wt)
        res['demo_clean_rc'] = rc
        res['demo_clean_tail'] = out.strip().splitlines()[-1:]
        rc, out = sh(['git', 'apply', os.path.join(src, 'patch.diff')], cwd=wt)
        how = 'clean'
        if rc != 0:
            rc, out = sh(['git', 'apply', '--3way', os.path.join(src, 'patch.diff')], cwd=wt)
            how = '3way'
        res['applies'] = how if rc == 0 else False
        if rc != 0:
            res['apply_error'] = out[-300:]
            return res
        os.remove(os.path.join(wt, '_seed_demo.py'))
        rc, diff = sh(['git', 'diff', 'HEAD'], cwd=wt)
        res['rebased'] = diff
        rc, out = sh(['/venv/bin/python', '-m', 'compileall', '-q', 'glue'], cwd=wt)
        res['compiles'] = rc == 0
        sh(['cp', os.path.join(src, 'demo.py'), os.path.join(wt, '_seed_demo.py')])
        rc, out = sh(['/venv/bin/python', '_seed_demo.py'], cwd=wt)
        res['demo_patched_rc'] = rc
        res['demo_patched_tail'] = out.strip().splitlines()[-1:]
        res['valid'] = res['demo_clean_rc'] == 0 and res['demo_patched_rc'] != 0 and res['compiles']
    finally:
        sh(['git', '-C', '/repo', 'worktree', 'remove', '--force', wt])
    return res


def main():
    out = sys.argv[1]
    items = [a.split('=', 1) for a in sys.argv[2:]]
    os.makedirs('/tmp/recheck', exist_ok=True)
    with ThreadPoolExecutor(8) as ex, open(out, 'w') as fh:
        for r in ex.map(one, items):
            fh.write(json.dumps(r) + '\n')
            fh.flush()
            print(r['name'], r.get('valid'), r.get('applies'), r.get('demo_clean_rc'), r.get('demo_patched_rc'), r.get('error', ''))


if __name__ == '__main__':
    main()
