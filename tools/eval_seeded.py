#!/venv/bin/python
"""Apply a seeded change to /repo, run every claimed quick check, report which fire, and undo the change.

usage: eval_seeded.py <patch.diff> [more patches...]      (never commits; /repo must be clean before and is clean after)
"""
import json
import os
import subprocess
import sys

HERE = os.path.dirname(os.path.dirname(os.path.abspath(__file__)))
sys.path.insert(0, HERE)


def sh(*cmd, **kw):
    return subprocess.run(cmd, stdout=subprocess.PIPE, stderr=subprocess.STDOUT, text=True, **kw)


def main():
    patches = sys.argv[1:]
    st = sh('git', '-C', '/repo', 'status', '--short').stdout.strip()
    if st:
        print('refusing: /repo is not clean:\n' + st)
        return 2
    man = json.load(open(os.path.join(HERE, 'MANIFEST.json')))
    props = [c['property_id'] for c in man['checks']]
    for p in patches:
        r = sh('git', '-C', '/repo', 'apply', p)
        if r.returncode != 0:
            r = sh('git', '-C', '/repo', 'apply', '--3way', p)
        if r.returncode != 0:
            print('%s: does not apply: %s' % (p, r.stdout.strip()[:200]))
            sh('git', '-C', '/repo', 'reset', '-q', '--hard', 'HEAD')
            continue
        try:
            fired, errors = {}, {}
            from concurrent.futures import ThreadPoolExecutor
            with ThreadPoolExecutor(16) as ex:
                outs = list(ex.map(lambda pid: sh('/venv/bin/python', os.path.join(HERE, 'check.py'), pid, '--tier', 'quick'), props))
            for pid, out in zip(props, outs):
                lines = [l for l in out.stdout.splitlines() if l.startswith('  ')]
                if out.returncode == 1:
                    fired[pid] = [l.strip()[:260] for l in lines]
                elif out.returncode == 2:
                    errors[pid] = out.stdout.strip().splitlines()[-1][:260]
            print('== %s' % p)
            print('   fired: %s' % (sorted(fired) or 'NONE'))
            for pid, ls in sorted(fired.items()):
                for l in ls[:3]:
                    print('     %s' % l)
            if errors:
                print('   analysis errors: %s' % errors)
        finally:
            sh('git', '-C', '/repo', 'reset', '-q', '--hard', 'HEAD')
            # files added by the patch
            sh('git', '-C', '/repo', 'clean', '-fdq', '--', 'glue')
    # evidence files were rewritten by the runs on the patched tree: regenerate them on the clean tree
    for pid in props:
        sh('/venv/bin/python', os.path.join(HERE, 'check.py'), pid, '--tier', 'quick')
    return 0


if __name__ == '__main__':
    sys.exit(main())
