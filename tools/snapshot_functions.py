#!/venv/bin/python
"""Freeze the names of the functions of /repo's current tree into sa/known_functions.txt.

A function whose qualified name is NOT in this list is a *new* helper: calls to it are inlined into its callers before
the rules look at them (sa/inline.py).  Re-run after the rule tables have been re-confirmed on a new tree."""
import ast
import os
import sys

HERE = os.path.dirname(os.path.dirname(os.path.abspath(__file__)))
sys.path.insert(0, HERE)
os.environ['VERIF_NO_INLINE'] = '1'
from sa.index import Index  # noqa

ix = Index(sys.argv[1] if len(sys.argv) > 1 else '/repo')
names = set()


def nested(prefix, node):
    for ch in ast.walk(node):
        if ch is not node and isinstance(ch, (ast.FunctionDef, ast.AsyncFunctionDef)):
            names.add('%s.<locals>.%s' % (prefix, ch.name))


for q, f in ix.functions.items():
    names.add(q)
    nested(q, f.raw_node)
for c in ix.classes.values():
    for name, m in c.members.items():
        for f in (m.func, m.fget, m.fset, m.fdel):
            if f is not None and f.cls is c:
                names.add(f.qualname)
                nested(f.qualname, f.raw_node)
with open(os.path.join(HERE, 'sa', 'known_functions.txt'), 'w') as fh:
    fh.write('# function names of the tree the rule tables were confirmed on (tools/snapshot_functions.py)\n')
    for n in sorted(names):
        fh.write(n + '\n')
print(len(names), 'functions')
# fingerprints of the private functions (sa/fingerprint.py): a private function that is only renamed is recognised by them
from sa import fingerprint as fp  # noqa
rows = []
for name, mod in sorted(ix.modules.items()):
    raw = ast.parse(mod.source)
    for owner, defs in sorted(fp.private_defs(name, raw).items()):
        for n, fdef in sorted(defs.items()):
            rows.append('%s %s %s' % (owner, n, fp.fingerprint(fdef)))
with open(os.path.join(HERE, 'sa', 'known_fingerprints.txt'), 'w') as fh:
    fh.write('# owner name fingerprint of the private functions of the tree the rule tables were confirmed on\n')
    fh.write('\n'.join(rows) + '\n')
print(len(rows), 'private functions fingerprinted')
